//! Own PRNG (SplitMix64 seeding + xoshiro256**). One integer decides everything.

#[derive(Clone, Debug)]
pub struct Rng {
    s: [u64; 4],
}

#[inline]
pub fn splitmix(state: &mut u64) -> u64 {
    *state = state.wrapping_add(0x9E3779B97F4A7C15);
    let mut z = *state;
    z = (z ^ (z >> 30)).wrapping_mul(0xBF58476D1CE4E5B9);
    z = (z ^ (z >> 27)).wrapping_mul(0x94D049BB133111EB);
    z ^ (z >> 31)
}

/// Derive the seed of one run from the global seed, a property tag and the run index.
pub fn mix(seed: u64, tag: &str, idx: u64) -> u64 {
    let mut h: u64 = 0xcbf29ce484222325;
    for b in tag.bytes() {
        h ^= b as u64;
        h = h.wrapping_mul(0x100000001b3);
    }
    let mut st = seed ^ h.rotate_left(17) ^ idx.wrapping_mul(0xD6E8FEB86659FD93);
    let a = splitmix(&mut st);
    let b = splitmix(&mut st);
    a ^ b.rotate_left(32)
}

impl Rng {
    pub fn new(seed: u64) -> Self {
        let mut st = seed;
        let s = [
            splitmix(&mut st),
            splitmix(&mut st),
            splitmix(&mut st),
            splitmix(&mut st),
        ];
        Rng { s }
    }
    #[inline]
    pub fn next_u64(&mut self) -> u64 {
        let result = self.s[1].wrapping_mul(5).rotate_left(7).wrapping_mul(9);
        let t = self.s[1] << 17;
        self.s[2] ^= self.s[0];
        self.s[3] ^= self.s[1];
        self.s[1] ^= self.s[2];
        self.s[0] ^= self.s[3];
        self.s[2] ^= t;
        self.s[3] = self.s[3].rotate_left(45);
        result
    }
    /// Uniform in [0,1).
    #[inline]
    pub fn f(&mut self) -> f64 {
        (self.next_u64() >> 11) as f64 * (1.0 / (1u64 << 53) as f64)
    }
    /// Uniform in [lo,hi).
    pub fn uni(&mut self, lo: f64, hi: f64) -> f64 {
        lo + (hi - lo) * self.f()
    }
    /// Log-uniform in [lo,hi), lo>0.
    pub fn logu(&mut self, lo: f64, hi: f64) -> f64 {
        (lo.ln() + (hi.ln() - lo.ln()) * self.f()).exp()
    }
    /// Uniform integer in [lo,hi] inclusive.
    pub fn int(&mut self, lo: usize, hi: usize) -> usize {
        debug_assert!(hi >= lo);
        lo + (self.next_u64() % ((hi - lo) as u64 + 1)) as usize
    }
    pub fn bool(&mut self, p: f64) -> bool {
        self.f() < p
    }
    pub fn pick<'a, T>(&mut self, xs: &'a [T]) -> &'a T {
        &xs[self.int(0, xs.len() - 1)]
    }
    /// +1 or -1.
    pub fn sign(&mut self) -> f64 {
        if self.bool(0.5) {
            1.0
        } else {
            -1.0
        }
    }
}
