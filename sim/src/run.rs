//! Execute one scenario against the REAL code under the simulated environment, with the
//! deterministic tick watchdog. No wall clock is read here.

use crate::env::*;
use crate::scenario::*;
use ivp::methods::{IntegrationResult, Tolerance, BDF, DOP853, DOPRI5, RADAU, RK23, RK4};
use ivp::prelude::*;
use std::cell::RefCell;
use std::panic::{catch_unwind, AssertUnwindSafe};
use std::sync::atomic::{AtomicU64, Ordering};

/// Tick budget of one run (S1..S4 crossings + loop-head ticks).
pub static WATCHDOG: AtomicU64 = AtomicU64::new(5_000_000);
/// Number of runs that hit the watchdog in this process (campaigns other than C04 stop expanding
/// work once this is large: on a tree where the solvers hang, every such run costs a full budget).
pub static HANGS: AtomicU64 = AtomicU64::new(0);
/// runs C04 judged stuck (no return even at 8x the watchdog): each is already a violation
pub static STUCK: AtomicU64 = AtomicU64::new(0);
/// runs C04 had to repeat with the 8x budget (0 or 1 per campaign on a healthy tree)
pub static RETRIED: AtomicU64 = AtomicU64::new(0);

thread_local! {
    static LAST_PANIC: RefCell<Option<String>> = const { RefCell::new(None) };
    /// per-thread multiplier of the watchdog (so that a re-run with a larger budget on one worker
    /// cannot influence the verdicts of runs on other workers)
    static WD_SCALE: std::cell::Cell<u64> = const { std::cell::Cell::new(1) };
}

/// Run `f` with the tick budget multiplied by `k` on this thread only.
pub fn with_watchdog_scale<T>(k: u64, f: impl FnOnce() -> T) -> T {
    let old = WD_SCALE.with(|c| c.replace(k));
    let r = f();
    WD_SCALE.with(|c| c.set(old));
    r
}

fn watchdog_budget() -> u64 {
    WATCHDOG.load(Ordering::Relaxed).saturating_mul(WD_SCALE.with(|c| c.get()))
}

/// Install a silent panic hook that records message and location per thread.
pub fn install_panic_hook() {
    std::panic::set_hook(Box::new(|info| {
        let payload = info.payload();
        if payload.downcast_ref::<ivp::verif::Watchdog>().is_some() {
            return;
        }
        let msg = if let Some(s) = payload.downcast_ref::<&str>() {
            s.to_string()
        } else if let Some(s) = payload.downcast_ref::<String>() {
            s.clone()
        } else {
            "non-string panic payload".to_string()
        };
        let loc = info
            .location()
            .map(|l| format!("{}:{}", l.file(), l.line()))
            .unwrap_or_default();
        LAST_PANIC.with(|p| *p.borrow_mut() = Some(format!("{msg} @ {loc}")));
    }));
}

/// message + location of the last panic caught on this thread (set by the silent hook)
pub fn take_last_panic() -> Option<String> {
    LAST_PANIC.with(|p| p.borrow_mut().take())
}

#[derive(Clone, Debug, PartialEq)]
pub enum Verdict {
    /// the call returned Ok(..)
    Returned,
    /// the call returned Err(..)
    Error(String),
    /// the tick watchdog fired: the call did not return within the budget
    Hang { ticks: u64, site: usize },
    Panic(String),
}

impl Verdict {
    pub fn name(&self) -> &'static str {
        match self {
            Verdict::Returned => "returned",
            Verdict::Error(_) => "err",
            Verdict::Hang { .. } => "HANG",
            Verdict::Panic(_) => "PANIC",
        }
    }
}

pub struct HighOut {
    pub verdict: Verdict,
    pub sol: Option<Solution>,
    pub st: SimState,
    pub ticks: u64,
    pub sites: [u64; ivp::verif::N_SITES],
    pub fp: u64,
}

pub struct LowOut {
    pub verdict: Verdict,
    pub res: Option<IntegrationResult>,
    pub cbs: Vec<CbRec>,
    pub n_cb: usize,
    pub after_interrupt: usize,
    pub st: SimState,
    pub ticks: u64,
    pub sites: [u64; ivp::verif::N_SITES],
    pub fp: u64,
}

pub fn tol(v: &[f64]) -> Tolerance {
    if v.len() == 1 {
        Tolerance::Scalar(v[0])
    } else {
        Tolerance::Vector(v.to_vec())
    }
}

pub fn status_name(s: Status) -> &'static str {
    match s {
        Status::Success => "Success",
        Status::UserInterrupt => "UserInterrupt",
        Status::NeedLargerNMax => "NeedLargerNMax",
        Status::StepSizeTooSmall => "StepSizeTooSmall",
        Status::ProbablyStiff => "ProbablyStiff",
        Status::SingularMatrix => "SingularMatrix",
        Status::PoorConvergence => "PoorConvergence",
    }
}

fn status_code(s: Status) -> u64 {
    match s {
        Status::Success => 0,
        Status::UserInterrupt => 1,
        Status::NeedLargerNMax => 2,
        Status::StepSizeTooSmall => 3,
        Status::ProbablyStiff => 4,
        Status::SingularMatrix => 5,
        Status::PoorConvergence => 6,
    }
}

fn classify_panic(e: Box<dyn std::any::Any + Send>) -> Verdict {
    if let Some(w) = e.downcast_ref::<ivp::verif::Watchdog>() {
        HANGS.fetch_add(1, Ordering::Relaxed);
        return Verdict::Hang {
            ticks: w.ticks,
            site: w.site,
        };
    }
    let msg = LAST_PANIC
        .with(|p| p.borrow_mut().take())
        .unwrap_or_else(|| "panic".to_string());
    Verdict::Panic(msg)
}

pub fn sol_hash(h: &mut u64, sol: &Solution) {
    for t in &sol.t {
        fnv(h, t.to_bits());
    }
    for y in &sol.y {
        for v in y {
            fnv(h, v.to_bits());
        }
    }
    for te in &sol.t_events {
        fnv(h, 0xE0);
        for t in te {
            fnv(h, t.to_bits());
        }
    }
    for ye in &sol.y_events {
        for y in ye {
            for v in y {
                fnv(h, v.to_bits());
            }
        }
    }
    for c in [sol.nfev, sol.njev, sol.nlu, sol.nstep, sol.naccpt, sol.nrejct] {
        fnv(h, c as u64);
    }
    fnv(h, status_code(sol.status));
    if let Some((a, b)) = sol.sol_span() {
        fnv(h, a.to_bits());
        fnv(h, b.to_bits());
    }
}

/// Run `ivp::solve_ivp` on the scenario. `record` = keep the full seam log.
pub fn run_high(sc: &Scenario, record: bool) -> HighOut {
    let sim = SimIVP::new(sc, record);
    ivp::verif::reset(watchdog_budget());
    let r = catch_unwind(AssertUnwindSafe(|| {
        let opts = Options::builder()
            .method(sc.method.to_ivp())
            .rtol(tol(&sc.rtol))
            .atol(tol(&sc.atol))
            .maybe_max_steps(sc.max_steps)
            .maybe_t_eval(sc.t_eval.clone())
            .maybe_first_step(sc.first_step)
            .maybe_max_step(sc.max_step)
            .maybe_min_step(sc.min_step)
            .dense_output(sc.dense)
            .build();
        solve_ivp(&sim, sc.x0, sc.xend, &sc.y0, opts)
    }));
    let ticks = ivp::verif::ticks();
    let sites = ivp::verif::site_counts();
    ivp::verif::reset(u64::MAX);
    let st = sim.take_state();
    let (verdict, sol) = match r {
        Ok(Ok(s)) => (Verdict::Returned, Some(s)),
        Ok(Err(e)) => (Verdict::Error(format!("{:?}", e)), None),
        Err(e) => (classify_panic(e), None),
    };
    let mut fp = st.hash;
    fnv(&mut fp, st.ode_calls);
    if let Some(s) = &sol {
        sol_hash(&mut fp, s);
    }
    match &verdict {
        Verdict::Returned => fnv(&mut fp, 10),
        Verdict::Error(_) => fnv(&mut fp, 11),
        Verdict::Hang { .. } => fnv(&mut fp, 12),
        Verdict::Panic(_) => fnv(&mut fp, 13),
    }
    HighOut {
        verdict,
        sol,
        st,
        ticks,
        sites,
        fp,
    }
}

/// Run the low-level `<Method>::solve` with the simulator-owned SolOut. The builder mapping is
/// the one `solve_ivp` uses (max_step, first_step, max_steps, min_step) plus the tuning knobs.
pub fn run_low(sc: &Scenario, record: bool) -> LowOut {
    let sim = SimIVP::new(sc, record);
    let mut so = SimSolOut::new(&sim, sc.actions.clone());
    ivp::verif::reset(watchdog_budget());
    let r = catch_unwind(AssertUnwindSafe(|| {
        let k = &sc.knobs;
        let nmax = sc.max_steps.unwrap_or(usize::MAX);
        match sc.method {
            Meth::RK4 => {
                let h = sc.first_step.unwrap_or((sc.xend - sc.x0) / 100.0);
                RK4::builder()
                    .max_steps(nmax)
                    .dense_output(sc.low_dense)
                    .build()
                    .solve(&sim, sc.x0, &sc.y0, sc.xend, h, Some(&mut so))
            }
            Meth::RK23 => RK23::builder()
                .maybe_max_step(sc.max_step)
                .dense_output(sc.low_dense)
                .maybe_first_step(sc.first_step)
                .max_steps(nmax)
                .maybe_safety_factor(k.safety_factor)
                .maybe_scale_min(k.scale_min)
                .maybe_scale_max(k.scale_max)
                .build()
                .solve(
                    &sim,
                    sc.x0,
                    &sc.y0,
                    sc.xend,
                    tol(&sc.rtol),
                    tol(&sc.atol),
                    Some(&mut so),
                ),
            Meth::DOPRI5 => DOPRI5::builder()
                .maybe_max_step(sc.max_step)
                .dense_output(sc.low_dense)
                .maybe_uround(k.uround)
                .maybe_first_step(sc.first_step)
                .max_steps(nmax)
                .maybe_safety_factor(k.safety_factor)
                .maybe_scale_min(k.scale_min)
                .maybe_scale_max(k.scale_max)
                .maybe_beta(k.beta)
                .maybe_stiff_test(k.stiff_test)
                .build()
                .solve(
                    &sim,
                    sc.x0,
                    &sc.y0,
                    sc.xend,
                    tol(&sc.rtol),
                    tol(&sc.atol),
                    Some(&mut so),
                ),
            Meth::DOP853 => DOP853::builder()
                .maybe_max_step(sc.max_step)
                .dense_output(sc.low_dense)
                .maybe_uround(k.uround)
                .maybe_first_step(sc.first_step)
                .max_steps(nmax)
                .maybe_safety_factor(k.safety_factor)
                .maybe_scale_min(k.scale_min)
                .maybe_scale_max(k.scale_max)
                .maybe_beta(k.beta)
                .maybe_stiff_test(k.stiff_test)
                .build()
                .solve(
                    &sim,
                    sc.x0,
                    &sc.y0,
                    sc.xend,
                    tol(&sc.rtol),
                    tol(&sc.atol),
                    Some(&mut so),
                ),
            Meth::RADAU => RADAU::builder()
                .maybe_max_step(sc.max_step)
                .dense_output(sc.low_dense)
                .maybe_uround(k.uround)
                .maybe_min_step(sc.min_step)
                .maybe_first_step(sc.first_step)
                .max_steps(nmax)
                .maybe_safety_factor(k.safety_factor)
                .maybe_scale_min(k.scale_min)
                .maybe_scale_max(k.scale_max)
                .maybe_newton_maxiter(k.newton_maxiter)
                .maybe_predictive(k.predictive)
                .mass_storage(MatrixStorage::Identity)
                .build()
                .solve(
                    &sim,
                    sc.x0,
                    &sc.y0,
                    sc.xend,
                    tol(&sc.rtol),
                    tol(&sc.atol),
                    Some(&mut so),
                ),
            Meth::BDF => BDF::builder()
                .maybe_max_step(sc.max_step)
                .maybe_min_step(sc.min_step)
                .maybe_first_step(sc.first_step)
                .max_steps(nmax)
                .maybe_newton_maxiter(k.newton_maxiter)
                .build()
                .solve(
                    &sim,
                    sc.x0,
                    &sc.y0,
                    sc.xend,
                    tol(&sc.rtol),
                    tol(&sc.atol),
                    Some(&mut so),
                ),
        }
    }));
    let ticks = ivp::verif::ticks();
    let sites = ivp::verif::site_counts();
    ivp::verif::reset(u64::MAX);
    let cbs = std::mem::take(&mut so.recs);
    let n_cb = so.n_calls;
    let after_interrupt = so.after_interrupt;
    drop(so);
    let st = sim.take_state();
    let (verdict, res) = match r {
        Ok(Ok(s)) => (Verdict::Returned, Some(s)),
        Ok(Err(e)) => (Verdict::Error(format!("{:?}", e)), None),
        Err(e) => (classify_panic(e), None),
    };
    let mut fp = st.hash;
    fnv(&mut fp, st.ode_calls);
    fnv(&mut fp, n_cb as u64);
    if let Some(r) = &res {
        fnv(&mut fp, status_code(r.status));
        fnv(&mut fp, r.h.to_bits());
        for c in [
            r.evals.ode,
            r.evals.jac,
            r.evals.lu,
            r.steps.total,
            r.steps.accepted,
            r.steps.rejected,
        ] {
            fnv(&mut fp, c as u64);
        }
    }
    match &verdict {
        Verdict::Returned => fnv(&mut fp, 10),
        Verdict::Error(_) => fnv(&mut fp, 11),
        Verdict::Hang { .. } => fnv(&mut fp, 12),
        Verdict::Panic(_) => fnv(&mut fp, 13),
    }
    LowOut {
        verdict,
        res,
        cbs,
        n_cb,
        after_interrupt,
        st,
        ticks,
        sites,
        fp,
    }
}
