//! Shrink a violating scenario while the same oracle keeps failing and the known-findings
//! classification stays the same (DESIGN §2.7).

use crate::core::*;
use crate::problems::Problem;
use crate::scenario::*;

pub struct MinResult {
    pub scenario: Scenario,
    pub violation: Violation,
    pub checks: usize,
}

fn candidates(sc: &Scenario) -> Vec<Scenario> {
    let mut out = Vec::new();
    let mut push = |f: &dyn Fn(&mut Scenario)| {
        let mut c = sc.clone();
        f(&mut c);
        if c != *sc {
            out.push(c);
        }
    };
    // 1. drop schedule entries
    for i in 0..sc.faults.len() {
        push(&|c| {
            c.faults.remove(i);
        });
    }
    for i in 0..sc.actions.len() {
        push(&|c| {
            c.actions.remove(i);
        });
    }
    for i in 0..sc.events.len() {
        push(&|c| {
            c.events.remove(i);
        });
    }
    // 2. drop observers and options
    push(&|c| c.t_eval = None);
    if let Some(te) = &sc.t_eval {
        let n = te.len();
        if n > 1 {
            push(&|c| c.t_eval = Some(te[..n / 2].to_vec()));
            push(&|c| c.t_eval = Some(te[n / 2..].to_vec()));
        }
        if n > 2 && n <= 12 {
            for i in 0..n {
                push(&|c| {
                    let mut t = te.clone();
                    t.remove(i);
                    c.t_eval = Some(t);
                });
            }
        }
    }
    push(&|c| c.dense = false);
    push(&|c| c.low_dense = true);
    push(&|c| c.max_step = None);
    push(&|c| c.min_step = None);
    push(&|c| c.max_steps = None);
    if sc.method != Meth::RK4 {
        push(&|c| c.first_step = None);
    }
    push(&|c| c.knobs = Knobs::default());
    push(&|c| c.jac = JacMode::Analytic);
    for i in 0..sc.events.len() {
        push(&|c| c.events[i].scale = 1.0);
        push(&|c| c.events[i].dir = Dir::All);
    }
    // 3. simplify the scenario
    push(&|c| {
        c.rtol = vec![c.rtol[0]];
        c.atol = vec![c.atol[0]];
    });
    push(&|c| {
        c.rtol = vec![1e-3];
        c.atol = vec![1e-6];
    });
    push(&|c| {
        let d = c.xend - c.x0;
        c.x0 = 0.0;
        c.xend = d;
        if let Some(te) = &mut c.t_eval {
            let x0 = sc.x0;
            for t in te.iter_mut() {
                *t -= x0;
            }
        }
    });
    if sc.prob.dim() == 1 && !matches!(sc.prob, Problem::Decay { .. }) {
        push(&|c| c.prob = Problem::Decay { lam: 1.0 });
    }
    if let Problem::Decay { lam } = sc.prob {
        if lam != 1.0 {
            push(&|c| c.prob = Problem::Decay { lam: 1.0 });
        }
    }
    push(&|c| {
        for y in c.y0.iter_mut() {
            *y = 1.0;
        }
    });
    // 4. move trigger indices toward 0
    for i in 0..sc.faults.len() {
        for div in [2u64, 1] {
            push(&|c| {
                let f = &mut c.faults[i];
                f.trigger = match f.trigger.clone() {
                    Trigger::At(n) if n > 1 => Trigger::At(if div == 2 { (n / 2).max(1) } else { n - 1 }),
                    Trigger::From(n) if n > 1 => Trigger::From(if div == 2 { (n / 2).max(1) } else { n - 1 }),
                    Trigger::Burst(n, l) if n > 1 => Trigger::Burst(if div == 2 { (n / 2).max(1) } else { n - 1 }, l),
                    t => t,
                };
            });
        }
        push(&|c| {
            let f = &mut c.faults[i];
            if let Trigger::Burst(n, l) = f.trigger.clone() {
                f.trigger = Trigger::At(n);
                let _ = l;
            }
        });
    }
    for i in 0..sc.actions.len() {
        for div in [2usize, 1] {
            push(&|c| {
                let k = c.actions[i].0;
                if k > 0 {
                    c.actions[i].0 = if div == 2 { k / 2 } else { k - 1 };
                }
            });
        }
    }
    if let Some(n) = sc.max_steps {
        if n > 1 {
            push(&|c| c.max_steps = Some(n / 2));
            push(&|c| c.max_steps = Some(n - 1));
        }
    }
    out
}

pub fn minimise(
    prop: &dyn Prop,
    sc: &Scenario,
    target: &Violation,
    known: &KnownFindings,
    max_checks: usize,
) -> MinResult {
    let class0 = known.classify(target, &features(sc));
    let mut best = sc.clone();
    let mut best_v = target.clone();
    let mut checks = 0usize;
    let mut progress = true;
    while progress && checks < max_checks {
        progress = false;
        for cand in candidates(&best) {
            if checks >= max_checks {
                break;
            }
            checks += 1;
            let mut cov = Cov::default();
            let vs = guarded_check(prop, &cand, &mut cov);
            if let Some(v) = vs.iter().find(|v| v.oracle == target.oracle) {
                if known.classify(v, &features(&cand)) == class0 {
                    best = cand;
                    best_v = v.clone();
                    progress = true;
                    break;
                }
            }
        }
    }
    MinResult {
        scenario: best,
        violation: best_v,
        checks,
    }
}
