//! Executable reference model of the SolOut callback protocol (S4), evaluated over the recorded
//! callback history of one low-level run. Shared by C19 (all clauses) and C06 (interpolant
//! clauses).

use crate::core::*;
use crate::run::*;
use crate::scenario::*;
use crate::util::*;
use ivp::prelude::Status;

pub struct ProtoOpts {
    /// check order/contiguity/first-call/end clauses (C19); C06 only wants the interpolant clauses
    pub structure: bool,
    pub interpolant: bool,
}

/// tolerance for "equal to rounding" of times in a low-level run
pub fn time_slack(sc: &Scenario, nsteps: usize) -> f64 {
    let x = sc.xscale().max(f64::MIN_POSITIVE);
    let mult = if sc.method == Meth::RK4 { (nsteps.max(1)) as f64 } else { 1.0 };
    8.0 * EPS * x * mult
}

pub fn check_protocol(p: &str, sc: &Scenario, o: &LowOut, opts: &ProtoOpts) -> Vec<Violation> {
    let mut v = Vec::new();
    if o.verdict != Verdict::Returned {
        return v;
    }
    let res = o.res.as_ref().unwrap();
    let cbs = &o.cbs;
    let dir = sc.dir();
    let dt = time_slack(sc, cbs.len());
    if cbs.is_empty() {
        if opts.structure {
            v.push(viol(p, "first_call", "the solver returned without ever calling SolOut".into()));
        }
        return v;
    }
    if opts.structure {
        let c0 = &cbs[0];
        if !(c0.xold.to_bits() == sc.x0.to_bits() && c0.x.to_bits() == sc.x0.to_bits() && bits_eq(&c0.y_in, &sc.y0)) {
            v.push(viol(
                p,
                "first_call",
                format!("first callback has xold={:e} x={:e} y={:?}; expected xold==x==x0={:e}, y==y0", c0.xold, c0.x, c0.y_in, sc.x0),
            ));
        }
        if c0.has_interp {
            // harmless, but the documented protocol passes no interpolant before stepping
        }
    }
    for k in 1..cbs.len() {
        let c = &cbs[k];
        let prev = &cbs[k - 1];
        if opts.structure {
            if (c.xold - prev.x).abs() > dt {
                v.push(viol(p, "contiguity", format!("callback {k}: xold={:e} but previous x={:e} (gap {:e} > {:e})", c.xold, prev.x, (c.xold - prev.x).abs(), dt)));
                break;
            }
            if !((c.x - c.xold) * dir > 0.0) {
                v.push(viol(p, "direction", format!("callback {k}: x={:e} is not ahead of xold={:e} in the direction of integration", c.x, c.xold)));
                break;
            }
            if !c.has_interp && sc.low_dense {
                v.push(viol(p, "no_interpolant", format!("callback {k}: no interpolant was passed although dense output is on")));
                break;
            }
        }
        if opts.interpolant && c.has_interp {
            if (c.ip_xold - c.xold).abs() > dt || (c.ip_xold + c.ip_h - c.x).abs() > dt {
                v.push(viol(
                    p,
                    "interp_bounds",
                    format!("callback {k}: interpolant step_params ({:e}, {:e}) do not match the interval [{:e}, {:e}]", c.ip_xold, c.ip_h, c.xold, c.x),
                ));
                break;
            }
            let (lo, hi) = c.bounds;
            let (elo, ehi) = if c.xold <= c.x { (c.xold, c.x) } else { (c.x, c.xold) };
            if (lo - elo).abs() > dt || (hi - ehi).abs() > dt || !(lo <= hi) {
                v.push(viol(p, "interp_bounds", format!("callback {k}: interpolant bounds ({:e}, {:e}) do not match [{:e}, {:e}]", lo, hi, elo, ehi)));
                break;
            }
            let h = (c.x - c.xold).abs();
            let s = norm_inf(&c.y_in).max(norm_inf(&prev.y_out)).max(h * c.fmax);
            if s.is_finite() && s < 1e100 && all_finite(&c.y_in) && all_finite(&prev.y_out) {
                let xs = sc.xscale().max(c.x.abs());
                let tau = tau_i(sc.method, s, xs, c.fmax, sc.min_atol());
                let d0 = max_abs_diff(&c.at_xold, &prev.y_out);
                if d0 > tau {
                    v.push(viol(
                        p,
                        "interp_at_xold",
                        format!("callback {k}: interpolant at xold={:e} gives {:?} but the state left behind by the previous callback is {:?} (diff {:e} > tau_I {:e})", c.xold, c.at_xold, prev.y_out, d0, tau),
                    ));
                    break;
                }
                let d1 = max_abs_diff(&c.at_x, &c.y_in);
                if d1 > tau {
                    v.push(viol(
                        p,
                        "interp_at_x",
                        format!("callback {k}: interpolant at x={:e} gives {:?} but y is {:?} (diff {:e} > tau_I {:e})", c.x, c.at_x, c.y_in, d1, tau),
                    ));
                    break;
                }
            }
        }
    }
    if opts.structure && res.status == Status::Success {
        let last = cbs.last().unwrap();
        if o.n_cb == cbs.len() && (last.x - sc.xend).abs() > dt {
            v.push(viol(p, "end", format!("status Success but the last callback has x={:e}, xend={:e} (off by {:e} > {:e})", last.x, sc.xend, (last.x - sc.xend).abs(), dt)));
        }
    }
    v
}
