//! ivpsim — deterministic simulation with fault injection for the `ivp` crate.
//!
//!   ivpsim check <ID> [quick|thorough] [--workers N]
//!   ivpsim replay <file>
//!   ivpsim fingerprints <ID> [quick|thorough] [--workers N]     (determinism audit helper)
//!
//! Exit codes: 0 = property held on everything explored (KNOWN-FINDING lines allowed),
//! 1 = VIOLATION, 2 = harness error, 3 = replay did not reproduce.

mod catalogue;
mod core;
mod env;
mod gen;
mod hexf;
mod minimise;
mod problems;
mod protocol;
mod props;
mod rng;
mod run;
mod scenario;
mod util;

use crate::core::*;
use crate::scenario::Scenario;
use serde::{Deserialize, Serialize};
use std::collections::BTreeMap;

#[derive(Serialize, Deserialize)]
struct ReplayFile {
    property: String,
    oracle: String,
    detail: String,
    seed: u64,
    tier: String,
    item: u64,
    index: usize,
    known_finding: Option<String>,
    minimiser_checks: usize,
    #[serde(default)]
    watchdog: u64,
    scenario: Scenario,
    original_scenario: Scenario,
}

fn root() -> String {
    std::env::var("VERIF_ROOT").unwrap_or_else(|_| "/verif".to_string())
}

fn harness_error(msg: &str) -> ! {
    eprintln!("harness error: {msg}");
    std::process::exit(2)
}

fn parse_workers(args: &[String]) -> usize {
    let mut w = std::thread::available_parallelism().map(|n| n.get()).unwrap_or(8);
    if let Ok(s) = std::env::var("VERIF_WORKERS") {
        if let Ok(n) = s.parse::<usize>() {
            w = n;
        }
    }
    let mut i = 0;
    while i < args.len() {
        if args[i] == "--workers" && i + 1 < args.len() {
            w = args[i + 1].parse().unwrap_or(w);
        }
        i += 1;
    }
    w.max(1)
}

fn parse_tier(args: &[String]) -> Tier {
    for a in args {
        match a.as_str() {
            "quick" => return Tier::Quick,
            "thorough" => return Tier::Thorough,
            _ => {}
        }
    }
    match std::env::var("VERIF_TIER").as_deref() {
        Ok("thorough") => Tier::Thorough,
        _ => Tier::Quick,
    }
}

fn seed() -> u64 {
    match std::env::var("VERIF_SEED") {
        Ok(s) => s.trim().parse::<u64>().unwrap_or_else(|_| {
            // accept negative / non-numeric seeds by hashing them
            rng::mix(0, &s, 0)
        }),
        Err(_) => 1,
    }
}

fn site_name(i: usize) -> &'static str {
    [
        "loop.rk4_main", "loop.rk23_main", "loop.dopri5_main", "loop.dop853_main", "loop.radau_main",
        "loop.radau_newton", "loop.bdf_main", "loop.bdf_newton", "loop.brent", "probe.rk23_reject",
        "probe.dopri5_reject", "probe.dop853_reject", "probe.radau_reject", "probe.radau_lu_singular",
        "probe.radau_newton_retry", "probe.bdf_lu_fail", "probe.bdf_newton_fail", "probe.bdf_reject",
        "probe.dopri5_stiff_test", "probe.dop853_stiff_test", "probe.bdf_order_change", "probe.radau_reuse_lu",
        "probe.event_root_search", "loop.output_handler", "", "", "", "", "", "", "", "seam.crossings",
    ][i]
}

fn write_evidence(
    prop: &dyn Prop,
    tier: Tier,
    seed: u64,
    res: &CampaignResult,
    wall_s: f64,
    unlisted: u64,
    known_lines: &[String],
    workers: usize,
) {
    let cov = &res.cov;
    let mut reach = BTreeMap::new();
    let mut unreached = Vec::new();
    for i in 0..ivp::verif::N_SITES {
        let n = site_name(i);
        if n.is_empty() {
            continue;
        }
        reach.insert(n.to_string(), cov.sites[i]);
        if cov.sites[i] == 0 {
            unreached.push(n.to_string());
        }
    }
    let fault_kinds: BTreeMap<String, u64> = cov
        .counters
        .iter()
        .filter(|(k, _)| k.starts_with("fault_fired."))
        .map(|(k, v)| (k["fault_fired.".len()..].to_string(), *v))
        .collect();
    let per_hour = |n: u64| if wall_s > 0.0 { (n as f64 / wall_s * 3600.0) as u64 } else { 0 };
    let mut samples = cov.samples.clone();
    if samples.is_empty() {
        samples.push(serde_json::json!({"note": "no sample recorded"}));
    }
    let ev = serde_json::json!({
        "property_id": prop.id(),
        "tier": tier.name(),
        "seed": seed,
        "level": prop.level(),
        "coverage": {
            "evaluations": cov.evaluations,
            "distinct_nontrivial": cov.nontrivial.len(),
            "rule": prop.rule(),
            "samples": samples,
            "exhaustive": prop.exhaustive(tier),
            "exhaustive_spaces": cov.exhaustive_spaces,
            "cases": cov.cases,
            "blocked_cases": cov.blocked,
            "violating_cases": res.total_violating_cases,
            "simulated_runs_per_hour": per_hour(cov.evaluations),
            "seeds_per_hour": per_hour(cov.cases),
            "simulated_clock_ticks": cov.ticks,
            "simulated_time_integrated": cov.sim_time,
            "fault_kinds_fired": fault_kinds,
            "counters": cov.counters,
            "site_reach": reach,
            "unreached_sites": unreached,
            "workers": workers,
            "components": {
                "real": ["six steppers (RK4 RK23 DOPRI5 DOP853 RADAU BDF)", "hinit", "Tolerance", "LU / linear solves", "DefaultSolOut (t_eval, events, Brent, dense collection)", "ContinuousOutput", "Solution", "default finite-difference IVP::jac"],
                "simulated": ["right-hand sides + fault plan (SimIVP)", "analytic Jacobians", "event functions", "user SolOut (SimSolOut) with action plan", "step budget"],
                "not_run": ["python bindings", "allocator/OS faults"]
            },
            "known_findings_reported": known_lines,
        },
        "assumptions": prop.assumptions(),
        "wall_s": wall_s,
        "violations": unlisted,
    });
    let dir = format!("{}/evidence", root());
    let _ = std::fs::create_dir_all(&dir);
    let path = format!("{dir}/{}.json", prop.id());
    if let Err(e) = std::fs::write(&path, serde_json::to_string_pretty(&ev).unwrap()) {
        harness_error(&format!("cannot write {path}: {e}"));
    }
}

fn cmd_check(id: &str, args: &[String]) -> i32 {
    let prop = match props::by_id(id) {
        Some(p) => p,
        None => harness_error(&format!("unknown or unclaimed property {id}")),
    };
    let tier = parse_tier(args);
    let workers = parse_workers(args);
    let seed = seed();
    println!("ivpsim check {id} tier={} VERIF_SEED={seed} workers={workers}", tier.name());
    let known = KnownFindings::load(&format!("{}/known_findings.json", root()));
    if id != "C04" && std::env::var_os("VERIF_WATCHDOG").is_none() {
        // only C04 judges termination; elsewhere a run beyond 1e6 ticks (20x the admissibility
        // bound of the generators) is merely a blocked case, so the smaller budget costs no soundness
        run::WATCHDOG.store(1_000_000, std::sync::atomic::Ordering::Relaxed);
    }
    let t0 = std::time::Instant::now();
    let res = run_campaign(prop.as_ref(), tier, seed, workers);
    let hung = run::HANGS.load(std::sync::atomic::Ordering::Relaxed);
    if id != "C04" && hung > 0 {
        println!("NOTE property={id}: {hung} runs exceeded the tick watchdog and were counted as blocked (termination is judged by C04)");
    }

    let gave_up = gen::GEN_GAVE_UP.load(std::sync::atomic::Ordering::Relaxed);
    if gave_up > 0 {
        println!("NOTE property={id}: the scenario generator gave up {gave_up} times (40 plain pilot runs in a row did not finish successfully): the tree under test fails ordinary runs");
    }
    if let Some(n) = res.cov.counters.get("aborted_items_after_200_hung_runs") {
        println!("NOTE property={id}: {n} work items were not expanded because the tree under test keeps exceeding the watchdog; the coverage of this run is partial");
    }

    // group violations by (oracle, classification); keep the first of each group
    let mut groups: BTreeMap<(String, Option<String>), (usize, u64)> = BTreeMap::new();
    for (fi, f) in res.found.iter().enumerate() {
        let feats = features(&f.scenario);
        for v in &f.violations {
            let class = known.classify(v, &feats);
            let e = groups.entry((v.oracle.clone(), class)).or_insert((fi, 0));
            e.1 += 1;
        }
    }
    let mut unlisted = 0u64;
    let mut known_lines = Vec::new();
    let mut out_lines = Vec::new();
    let replay_dir = format!("{}/replays", root());
    for ((oracle, class), (fi, count)) in &groups {
        let f = &res.found[*fi];
        let v = f.violations.iter().find(|v| v.oracle == *oracle).unwrap();
        match class {
            Some(kid) => {
                let line = format!("KNOWN-FINDING: property={id} finding={kid} oracle={oracle} ({count} stored cases) e.g. {}", v.detail);
                known_lines.push(line.clone());
                out_lines.push(line);
            }
            None => {
                unlisted += 1;
                // a hang costs 9 watchdog budgets per re-execution: shrink it with fewer attempts
                let budget = if oracle.ends_with(".hang") { 60 } else { 400 };
                let m = minimise::minimise(prop.as_ref(), &f.scenario, v, &known, budget);
                let _ = std::fs::create_dir_all(&replay_dir);
                let path = format!("{replay_dir}/{id}-{}-{seed}-{}-{}.json", oracle.replace('.', "_"), f.item, f.index);
                let rf = ReplayFile {
                    property: id.to_string(),
                    oracle: oracle.clone(),
                    detail: m.violation.detail.clone(),
                    seed,
                    tier: tier.name().to_string(),
                    item: f.item,
                    index: f.index,
                    known_finding: None,
                    minimiser_checks: m.checks,
                    watchdog: run::WATCHDOG.load(std::sync::atomic::Ordering::Relaxed),
                    scenario: m.scenario.clone(),
                    original_scenario: f.scenario.clone(),
                };
                if let Err(e) = std::fs::write(&path, serde_json::to_string_pretty(&rf).unwrap()) {
                    harness_error(&format!("cannot write {path}: {e}"));
                }
                out_lines.push(format!(
                    "VIOLATION property={id} replay={path} oracle={oracle} cases={count} :: {} :: {}",
                    m.violation.detail,
                    m.scenario.summary()
                ));
            }
        }
    }
    let wall = t0.elapsed().as_secs_f64();
    write_evidence(prop.as_ref(), tier, seed, &res, wall, unlisted, &known_lines, workers);
    for l in &out_lines {
        println!("{l}");
    }
    println!(
        "summary property={id} tier={} cases={} evaluations={} distinct_nontrivial={} blocked={} violating_cases={} unlisted_groups={} wall_s={:.1}",
        tier.name(),
        res.cov.cases,
        res.cov.evaluations,
        res.cov.nontrivial.len(),
        res.cov.blocked,
        res.total_violating_cases,
        unlisted,
        wall
    );
    if unlisted > 0 {
        1
    } else {
        0
    }
}

fn cmd_replay(path: &str) -> i32 {
    let s = std::fs::read_to_string(path).unwrap_or_else(|e| harness_error(&format!("cannot read {path}: {e}")));
    let rf: ReplayFile = serde_json::from_str(&s).unwrap_or_else(|e| harness_error(&format!("cannot parse {path}: {e}")));
    let prop = props::by_id(&rf.property).unwrap_or_else(|| harness_error("unknown property in replay file"));
    if rf.watchdog > 0 {
        run::WATCHDOG.store(rf.watchdog, std::sync::atomic::Ordering::Relaxed);
    }
    let mut cov = Cov::default();
    let vs = guarded_check(prop.as_ref(), &rf.scenario, &mut cov);
    match vs.iter().find(|v| v.oracle == rf.oracle) {
        Some(v) if v.detail == rf.detail => {
            println!("VIOLATION property={} replay={path} oracle={} :: {} :: {}", rf.property, rf.oracle, v.detail, rf.scenario.summary());
            println!("replay: reproduced exactly");
            1
        }
        Some(v) => {
            println!("replay: oracle {} fails again but with a different detail:\n  recorded: {}\n  now:      {}", rf.oracle, rf.detail, v.detail);
            3
        }
        None => {
            println!("replay: {} did not reproduce ({} other violations)", rf.oracle, vs.len());
            3
        }
    }
}

/// Print one line per case: item, index, fingerprint of (violations, coverage delta). Used by the
/// determinism audit: two invocations (any worker count, any process) must print identical text.
fn cmd_fingerprints(id: &str, args: &[String]) -> i32 {
    let prop = props::by_id(id).unwrap_or_else(|| harness_error("unknown property"));
    let tier = parse_tier(args);
    let workers = parse_workers(args);
    let seed = seed();
    let res = run_campaign(prop.as_ref(), tier, seed, workers);
    let mut h: u64 = 0xcbf29ce484222325;
    for fp in &res.cov.nontrivial {
        env::fnv(&mut h, *fp);
    }
    for (k, v) in &res.cov.counters {
        for b in k.bytes() {
            env::fnv(&mut h, b as u64);
        }
        env::fnv(&mut h, *v);
    }
    env::fnv(&mut h, res.cov.evaluations);
    env::fnv(&mut h, res.cov.ticks);
    env::fnv(&mut h, res.total_violating_cases);
    for f in &res.found {
        env::fnv(&mut h, f.item);
        env::fnv(&mut h, f.index as u64);
        for v in &f.violations {
            for b in v.detail.bytes() {
                env::fnv(&mut h, b as u64);
            }
        }
    }
    println!(
        "fingerprint property={id} tier={} seed={seed} cases={} evaluations={} ticks={} distinct={} violating={} hash={:016x}",
        tier.name(),
        res.cov.cases,
        res.cov.evaluations,
        res.cov.ticks,
        res.cov.nontrivial.len(),
        res.total_violating_cases,
        h
    );
    0
}

fn main() {
    run::install_panic_hook();
    if let Ok(w) = std::env::var("VERIF_WATCHDOG") {
        if let Ok(n) = w.parse::<u64>() {
            run::WATCHDOG.store(n, std::sync::atomic::Ordering::Relaxed);
        }
    }
    let args: Vec<String> = std::env::args().collect();
    if args.len() < 2 {
        harness_error("usage: ivpsim check <ID> [quick|thorough] | replay <file> | fingerprints <ID> [tier]");
    }
    let code = match args[1].as_str() {
        "check" if args.len() >= 3 => cmd_check(&args[2], &args[3..]),
        "replay" if args.len() >= 3 => cmd_replay(&args[2]),
        "fingerprints" if args.len() >= 3 => cmd_fingerprints(&args[2], &args[3..]),
        "dump" if args.len() >= 3 => { debug_dump(&args[2]); 0 }
        "items" if args.len() >= 3 => { debug_items(&args[2], parse_tier(&args[3..])); 0 }
        _ => harness_error("bad arguments"),
    };
    std::process::exit(code);
}

#[allow(dead_code)]
pub fn debug_items(id: &str, tier: Tier) {
    let prop = props::by_id(id).unwrap();
    for i in 0..prop.n_items(tier).min(100) {
        let scs = prop.expand(i, tier, 1);
        println!("item {i}: {} scenarios; first: {}", scs.len(), scs.first().map(|s| s.summary()).unwrap_or_default());
    }
}

/// Debug helper: run the scenario of a replay file (high-level) and dump the solution.
#[allow(dead_code)]
pub fn debug_dump(path: &str) {
    let s = std::fs::read_to_string(path).unwrap();
    let rf: ReplayFile = serde_json::from_str(&s).unwrap();
    let sc = rf.scenario;
    println!("{}", sc.summary());
    println!("t_eval = {:?}", sc.t_eval);
    match sc.entry {
        scenario::Entry::High => {
            let o = run::run_high(&sc, true);
            println!("verdict {:?}", o.verdict);
            if let Some(s) = &o.sol {
                println!("status {:?} nfev {} njev {} nstep {} naccpt {} nrejct {}", s.status, s.nfev, s.njev, s.nstep, s.naccpt, s.nrejct);
                println!("t = {:?}", s.t);
                println!("y = {:?}", s.y);
                println!("t_events = {:?}", s.t_events);
                println!("span = {:?}", s.sol_span());
            }
            println!("ode calls {} (in jac {}) jac calls {} ev calls {}", o.st.ode_calls, o.st.ode_calls_in_jac, o.st.jac_calls, o.st.ev_calls);
            if std::env::var_os("VERIF_DUMP_TAIL").is_some() {
                let n = o.st.odes.len();
                for r in o.st.odes.iter().skip(n.saturating_sub(30)) {
                    println!("  ode seq {} t {:e} y {:?} out {:?} faulted {}", r.seq, r.t, &o.st.arena[r.off..r.off + sc.prob.dim()], &o.st.arena[r.off + sc.prob.dim()..r.off + 2 * sc.prob.dim()], r.faulted);
                }
            }
            for r in o.st.odes.iter().take(40) {
                println!("  ode seq {} t {:e} y {:?} injac {} faulted {}", r.seq, r.t, &o.st.arena[r.off..r.off + sc.prob.dim()], r.in_jac, r.faulted);
            }
        }
        scenario::Entry::Low => {
            let o = run::run_low(&sc, true);
            println!("verdict {:?} res {:?}", o.verdict, o.res);
            for (k, c) in o.cbs.iter().enumerate().take(60) {
                println!("  cb {k}: xold {:e} x {:e} y {:?} ip_h {:e} act {:?}", c.xold, c.x, c.y_in, c.ip_h, c.action);
            }
        }
    }
}
