//! The explicit, serialisable description of one simulated run: problem, options, and the
//! complete environment schedule (faults at S1, event functions at S3, callback actions at S4,
//! budget at S5). A replay file is exactly this plus the violated oracle.

use crate::hexf;
use crate::problems::Problem;
use serde::{Deserialize, Serialize};

#[derive(Serialize, Deserialize, Clone, Copy, Debug, PartialEq, Eq, PartialOrd, Ord, Hash)]
pub enum Meth {
    RK4,
    RK23,
    DOPRI5,
    DOP853,
    RADAU,
    BDF,
}

pub const ALL_METHODS: [Meth; 6] = [
    Meth::RK4,
    Meth::RK23,
    Meth::DOPRI5,
    Meth::DOP853,
    Meth::RADAU,
    Meth::BDF,
];

impl Meth {
    pub fn name(self) -> &'static str {
        match self {
            Meth::RK4 => "RK4",
            Meth::RK23 => "RK23",
            Meth::DOPRI5 => "DOPRI5",
            Meth::DOP853 => "DOP853",
            Meth::RADAU => "RADAU",
            Meth::BDF => "BDF",
        }
    }
    pub fn to_ivp(self) -> ivp::solve::Method {
        use ivp::solve::Method as M;
        match self {
            Meth::RK4 => M::RK4,
            Meth::RK23 => M::RK23,
            Meth::DOPRI5 => M::DOPRI5,
            Meth::DOP853 => M::DOP853,
            Meth::RADAU => M::RADAU,
            Meth::BDF => M::BDF,
        }
    }
    pub fn error_controlled(self) -> bool {
        self != Meth::RK4
    }
    pub fn implicit(self) -> bool {
        matches!(self, Meth::RADAU | Meth::BDF)
    }
}

#[derive(Serialize, Deserialize, Clone, Copy, Debug, PartialEq, Eq)]
pub enum Entry {
    /// `ivp::solve_ivp`
    High,
    /// `ivp::methods::<M>::solve` with a simulator-owned `SolOut`
    Low,
}

#[derive(Serialize, Deserialize, Clone, Copy, Debug, PartialEq, Eq)]
pub enum JacMode {
    /// the crate's own default finite-difference `IVP::jac`, run for real through an adapter
    Fd,
    Analytic,
}

#[derive(Serialize, Deserialize, Clone, Copy, Debug, PartialEq, Eq)]
pub enum Dir {
    All,
    Pos,
    Neg,
}

#[derive(Serialize, Deserialize, Clone, Debug, PartialEq)]
pub enum EvKind {
    /// g = t - c
    Time {
        #[serde(with = "hexf")]
        c: f64,
    },
    /// g = y[i] - c
    State {
        i: usize,
        #[serde(with = "hexf")]
        c: f64,
    },
    /// g = sin(w (t - phi))
    Sin {
        #[serde(with = "hexf")]
        w: f64,
        #[serde(with = "hexf")]
        phi: f64,
    },
    /// g = (t - c1)(t - c2)
    Prod {
        #[serde(with = "hexf")]
        c1: f64,
        #[serde(with = "hexf")]
        c2: f64,
    },
    /// g = 1 (never crosses; used as an accepted-step probe on the events seam)
    Const,
}

#[derive(Serialize, Deserialize, Clone, Debug, PartialEq)]
pub struct EventSpec {
    pub kind: EvKind,
    /// g is multiplied by this scale
    #[serde(with = "hexf")]
    pub scale: f64,
    pub dir: Dir,
    pub terminal: Option<usize>,
}

impl EventSpec {
    #[inline]
    pub fn eval(&self, t: f64, y: &[f64]) -> f64 {
        let base = match self.kind {
            EvKind::Time { c } => t - c,
            EvKind::State { i, c } => y[i] - c,
            EvKind::Sin { w, phi } => (w * (t - phi)).sin(),
            EvKind::Prod { c1, c2 } => (t - c1) * (t - c2),
            EvKind::Const => 1.0,
        };
        self.scale * base
    }
}

#[derive(Serialize, Deserialize, Clone, Copy, Debug, PartialEq, Eq, PartialOrd, Ord)]
pub enum FaultKind {
    NanAll,
    NanOne,
    PosInf,
    NegInf,
    Huge,
    Glitch,
}

pub const ALL_FAULT_KINDS: [FaultKind; 6] = [
    FaultKind::NanAll,
    FaultKind::NanOne,
    FaultKind::PosInf,
    FaultKind::NegInf,
    FaultKind::Huge,
    FaultKind::Glitch,
];

impl FaultKind {
    pub fn name(self) -> &'static str {
        match self {
            FaultKind::NanAll => "nan_all",
            FaultKind::NanOne => "nan_one",
            FaultKind::PosInf => "pos_inf",
            FaultKind::NegInf => "neg_inf",
            FaultKind::Huge => "huge_1e300",
            FaultKind::Glitch => "finite_glitch",
        }
    }
    pub fn non_finite(self) -> bool {
        !matches!(self, FaultKind::Huge | FaultKind::Glitch)
    }
}

#[derive(Serialize, Deserialize, Clone, Debug, PartialEq)]
pub enum Trigger {
    /// the n-th S1 crossing only (1-based, counts every `ode` call incl. those made inside `jac`)
    At(u64),
    /// every S1 crossing from the n-th on
    From(u64),
    /// crossings n .. n+len-1
    Burst(u64, u64),
    /// every S1 crossing whose time is at or beyond t (in the direction of integration)
    AfterTime(#[serde(with = "hexf")] f64),
}

#[derive(Serialize, Deserialize, Clone, Debug, PartialEq)]
pub struct FaultSpec {
    pub trigger: Trigger,
    pub kind: FaultKind,
    /// component for NanOne / Glitch
    pub comp: usize,
    /// Glitch: value is multiplied by this and shifted by it
    #[serde(with = "hexf")]
    pub mag: f64,
}

#[derive(Serialize, Deserialize, Clone, Debug, PartialEq)]
pub enum Action {
    Interrupt,
    /// return ModifiedSolution without touching y
    ModIdentity,
    /// y *= factor (power of two in the doubling oracle), return ModifiedSolution
    ModScale(#[serde(with = "hexf")] f64),
    /// y[i] += eps*(1+|y[i]|), return ModifiedSolution
    ModPerturb(#[serde(with = "hexf")] f64),
    /// return ControlFlag::XOut(x): ask for an interpolant once the integration has reached x
    /// (only meaningful with the low-level dense_output switched off)
    XOut(#[serde(with = "hexf")] f64),
}

/// Solver tuning knobs (low-level entry only); None = builder default.
#[derive(Serialize, Deserialize, Clone, Debug, PartialEq, Default)]
pub struct Knobs {
    #[serde(with = "hexf::opt")]
    pub safety_factor: Option<f64>,
    #[serde(with = "hexf::opt")]
    pub scale_min: Option<f64>,
    #[serde(with = "hexf::opt")]
    pub scale_max: Option<f64>,
    #[serde(with = "hexf::opt")]
    pub beta: Option<f64>,
    pub stiff_test: Option<usize>,
    #[serde(default, with = "hexf::opt")]
    pub uround: Option<f64>,
    pub newton_maxiter: Option<usize>,
    pub predictive: Option<bool>,
}

#[derive(Serialize, Deserialize, Clone, Debug, PartialEq)]
pub struct Scenario {
    pub entry: Entry,
    pub method: Meth,
    pub prob: Problem,
    #[serde(with = "hexf")]
    pub x0: f64,
    #[serde(with = "hexf")]
    pub xend: f64,
    #[serde(with = "hexf::vec")]
    pub y0: Vec<f64>,
    /// length 1 = scalar tolerance, else per component
    #[serde(with = "hexf::vec")]
    pub rtol: Vec<f64>,
    #[serde(with = "hexf::vec")]
    pub atol: Vec<f64>,
    #[serde(with = "hexf::optvec")]
    pub t_eval: Option<Vec<f64>>,
    pub dense: bool,
    /// RK4 low-level: the fixed step (None = span/100 as solve_ivp does)
    #[serde(with = "hexf::opt")]
    pub first_step: Option<f64>,
    #[serde(with = "hexf::opt")]
    pub max_step: Option<f64>,
    #[serde(with = "hexf::opt")]
    pub min_step: Option<f64>,
    pub max_steps: Option<usize>,
    pub jac: JacMode,
    pub knobs: Knobs,
    pub events: Vec<EventSpec>,
    pub faults: Vec<FaultSpec>,
    /// low-level entry: callback index -> action
    pub actions: Vec<(usize, Action)>,
    /// low-level entry: the solver's own dense_output switch (solve_ivp always leaves it on)
    #[serde(default = "default_true")]
    pub low_dense: bool,
}

fn default_true() -> bool {
    true
}

impl Scenario {
    pub fn basic(method: Meth, prob: Problem, x0: f64, xend: f64, y0: Vec<f64>) -> Scenario {
        Scenario {
            entry: Entry::High,
            method,
            prob,
            x0,
            xend,
            y0,
            rtol: vec![1e-6],
            atol: vec![1e-9],
            t_eval: None,
            dense: false,
            first_step: None,
            max_step: None,
            min_step: None,
            max_steps: None,
            jac: JacMode::Analytic,
            knobs: Knobs::default(),
            events: vec![],
            faults: vec![],
            actions: vec![],
            low_dense: true,
        }
    }
    pub fn dir(&self) -> f64 {
        if self.xend >= self.x0 {
            1.0
        } else {
            -1.0
        }
    }
    pub fn span(&self) -> f64 {
        (self.xend - self.x0).abs()
    }
    /// X = max(|x0|,|xend|) restricted to finite values.
    pub fn xscale(&self) -> f64 {
        let a = self.x0.abs();
        let b = if self.xend.is_finite() { self.xend.abs() } else { 0.0 };
        a.max(b)
    }
    pub fn min_atol(&self) -> f64 {
        self.atol.iter().cloned().fold(f64::INFINITY, f64::min)
    }
    pub fn max_rtol(&self) -> f64 {
        self.rtol.iter().cloned().fold(0.0, f64::max)
    }
    pub fn to_json(&self) -> String {
        serde_json::to_string_pretty(self).unwrap()
    }
    /// one-line summary for evidence samples and logs
    pub fn summary(&self) -> String {
        let mut s = format!(
            "{:?}/{} {} x0={:e} xend={:e} rtol={:e} atol={:e}",
            self.entry,
            self.method.name(),
            self.prob.name(),
            self.x0,
            self.xend,
            self.rtol[0],
            self.atol[0]
        );
        if let Some(te) = &self.t_eval {
            s += &format!(" t_eval[{}]", te.len());
        }
        if self.dense {
            s += " dense";
        }
        if let Some(h) = self.first_step {
            s += &format!(" first_step={:e}", h);
        }
        if let Some(h) = self.max_step {
            s += &format!(" max_step={:e}", h);
        }
        if let Some(h) = self.min_step {
            s += &format!(" min_step={:e}", h);
        }
        if let Some(n) = self.max_steps {
            s += &format!(" max_steps={}", n);
        }
        if self.method.implicit() {
            s += &format!(" jac={:?}", self.jac);
        }
        if !self.low_dense {
            s += " low_dense=false";
        }
        if self.knobs != Knobs::default() {
            s += &format!(" knobs={:?}", self.knobs);
        }
        for e in &self.events {
            s += &format!(" ev({:?} s={:e} {:?} term={:?})", e.kind, e.scale, e.dir, e.terminal);
        }
        for f in &self.faults {
            s += &format!(" fault({:?} {:?})", f.trigger, f.kind);
        }
        for (k, a) in &self.actions {
            s += &format!(" act({}:{:?})", k, a);
        }
        s
    }
}
