//! Swarm-style scenario generation helpers and the pilot run (a placement aid only).

use crate::problems::Problem;
use crate::rng::Rng;
use crate::run::{run_low, Verdict};
use crate::scenario::*;
use ivp::prelude::Status;

pub struct Pilot {
    /// x of every callback (grid[0] = x0)
    pub grid: Vec<f64>,
    pub ys: Vec<Vec<f64>>,
    /// S1 crossings made before each callback
    pub cb_ode_calls: Vec<u64>,
    pub n_ode: u64,
    pub success: bool,
    pub fmax: f64,
}

/// Fault-free, observer-free low-level run of the same problem/options.
pub fn pilot(sc: &Scenario) -> Option<Pilot> {
    let mut p = sc.clone();
    p.entry = Entry::Low;
    p.faults.clear();
    p.actions.clear();
    p.events.clear();
    p.t_eval = None;
    let old = crate::run::WATCHDOG.load(std::sync::atomic::Ordering::Relaxed);
    let _ = old;
    let o = run_low(&p, false);
    if o.verdict != Verdict::Returned {
        return None;
    }
    let res = o.res.as_ref()?;
    Some(Pilot {
        grid: o.cbs.iter().map(|c| c.x).collect(),
        ys: o.cbs.iter().map(|c| c.y_in.clone()).collect(),
        cb_ode_calls: o.cbs.iter().map(|c| c.ode_calls).collect(),
        n_ode: o.st.ode_calls,
        success: res.status == Status::Success,
        fmax: o.st.fmax,
    })
}

#[derive(Clone, Copy, Debug, PartialEq, Eq)]
pub enum ProbClass {
    /// smooth problems every method finishes
    Smooth,
    /// linear homogeneous only (doubling oracle)
    LinHom,
    /// includes blow-up, discontinuous and stiff-for-explicit problems
    Hostile,
}

pub fn gen_method(rng: &mut Rng) -> Meth {
    *rng.pick(&ALL_METHODS)
}

/// Draw a problem with parameters, y0 and a sensible span length.
pub fn gen_problem(rng: &mut Rng, m: Meth, class: ProbClass) -> (Problem, Vec<f64>, f64) {
    let pick = match class {
        ProbClass::LinHom => rng.int(0, 4),
        ProbClass::Smooth => rng.int(0, 11),
        ProbClass::Hostile => rng.int(0, 15),
    };
    match pick {
        0 => (
            Problem::Decay { lam: rng.logu(0.1, 30.0) },
            vec![rng.uni(0.2, 3.0) * rng.sign()],
            rng.logu(0.3, 6.0),
        ),
        1 => (
            Problem::Rot { a: rng.uni(-1.0, 0.15), w: rng.uni(0.5, 8.0) },
            vec![rng.uni(0.3, 2.0), rng.uni(-1.0, 1.0)],
            rng.logu(0.5, 8.0),
        ),
        2 => (
            Problem::Sho { w: rng.uni(0.5, 6.0) },
            vec![rng.uni(0.3, 2.0), rng.uni(-1.0, 1.0)],
            rng.logu(0.5, 10.0),
        ),
        3 => (
            Problem::Stiff3 {
                l1: rng.logu(0.5, 2.0),
                l2: rng.logu(5.0, 20.0),
                l3: if m.implicit() { rng.logu(100.0, 5000.0) } else { rng.logu(30.0, 300.0) },
            },
            vec![rng.uni(0.5, 1.5), rng.uni(0.5, 1.5), rng.uni(0.5, 1.5)],
            rng.logu(0.3, 2.0),
        ),
        4 => (
            Problem::Lin4 {
                a: rng.uni(-0.8, 0.0),
                w1: rng.uni(0.5, 4.0),
                b: rng.uni(-1.5, -0.1),
                w2: rng.uni(1.0, 6.0),
                c: rng.uni(-1.0, 1.0),
            },
            vec![rng.uni(0.3, 1.5), rng.uni(-1.0, 1.0), rng.uni(-1.0, 1.0), rng.uni(0.2, 1.0)],
            rng.logu(0.5, 6.0),
        ),
        5 => (Problem::Forced, vec![rng.uni(-2.0, 2.0)], rng.logu(0.5, 10.0)),
        6 => (
            Problem::Logistic { r: rng.uni(0.5, 4.0) },
            vec![rng.uni(0.05, 0.9)],
            rng.logu(0.5, 6.0),
        ),
        7 => (
            Problem::Vdp { mu: rng.uni(0.1, 3.0) },
            vec![rng.uni(1.0, 2.2), rng.uni(-0.5, 0.5)],
            rng.logu(0.5, 8.0),
        ),
        8 => (Problem::Riccati, vec![rng.uni(0.5, 2.0)], rng.logu(0.3, 2.5)),
        9 => (Problem::Zero { n: rng.int(1, 3) }, vec![], rng.logu(0.3, 5.0)),
        10 => {
            if m.implicit() {
                (Problem::Robertson, vec![1.0, 0.0, 0.0], rng.logu(0.1, 40.0))
            } else {
                (Problem::Robertson, vec![1.0, 0.0, 0.0], rng.logu(0.01, 0.2))
            }
        }
        11 => (
            Problem::Decay { lam: rng.logu(0.1, 3.0) },
            vec![rng.uni(0.2, 3.0)],
            rng.logu(0.001, 0.3),
        ),
        12 => (Problem::Blowup, vec![rng.uni(0.5, 2.0)], rng.uni(1.0, 4.0)),
        13 => (Problem::Tan, vec![rng.uni(-0.5, 0.5)], rng.uni(1.2, 4.0)),
        14 => (
            Problem::Disc { tstar: 0.0, mode: rng.int(0, 2) as u8 },
            vec![rng.uni(0.5, 2.0)],
            rng.logu(0.5, 5.0),
        ),
        _ => (
            Problem::Decay { lam: rng.logu(500.0, 5000.0) },
            vec![rng.uni(0.5, 2.0)],
            rng.logu(0.1, 1.0),
        ),
    }
}

pub fn gen_rtol(rng: &mut Rng, m: Meth) -> f64 {
    match m {
        Meth::RK4 => 1e-6,
        Meth::RK23 => rng.logu(1e-7, 1e-3),
        Meth::DOPRI5 => rng.logu(1e-9, 1e-3),
        Meth::DOP853 => rng.logu(1e-11, 1e-3),
        Meth::RADAU => rng.logu(1e-9, 1e-3),
        Meth::BDF => rng.logu(1e-8, 1e-3),
    }
}

/// A complete fault-free, option-free base scenario.
pub fn gen_base(rng: &mut Rng, m: Meth, class: ProbClass, entry: Entry) -> Scenario {
    let (mut prob, mut y0, mut len) = gen_problem(rng, m, class);
    let n = prob.dim();
    if y0.is_empty() {
        y0 = (0..n).map(|_| rng.uni(-1.0, 1.0)).collect();
    }
    let backward = rng.bool(0.4);
    let mut x0 = if rng.bool(0.4) { 0.0 } else { rng.uni(-3.0, 3.0) };
    // problem-specific admissibility of the span
    match &mut prob {
        Problem::Riccati => {
            // y = 1/(t^2 + C): keep t in [0, 3]
            x0 = if backward { rng.uni(1.0, 3.0) } else { rng.uni(0.0, 1.0) };
            len = len.min(if backward { x0 } else { 3.0 - x0 });
            if backward {
                // C = 1/y0 - x0^2 must stay positive or the backward solution blows up
                y0 = vec![1.0 / (x0 * x0 + rng.uni(0.3, 2.0))];
            }
        }
        Problem::Disc { tstar, .. } => {
            // discontinuity strictly inside the span
            let frac = rng.uni(0.15, 0.85);
            *tstar = x0 + if backward { -1.0 } else { 1.0 } * frac * len;
        }
        Problem::Robertson => {
            x0 = 0.0;
        }
        _ => {}
    }
    if backward {
        // integrating a decaying problem backward grows like exp(rate*len): bound the growth
        let rate = match &prob {
            Problem::Decay { lam } => *lam,
            Problem::Stiff3 { l3, .. } => *l3,
            Problem::Rot { a, .. } => a.abs(),
            Problem::Lin4 { b, .. } => b.abs().max(1.0),
            Problem::Forced => 1.0,
            Problem::Logistic { r } => *r,
            Problem::Vdp { mu } => 1.0 + *mu * 3.0,
            Problem::Robertson => 1e4,
            _ => 0.0,
        };
        if rate * len > 6.0 {
            len = 6.0 / rate;
        }
    }
    let mut xend = if backward { x0 - len } else { x0 + len };
    // landing on an end point of small magnitude from far away: x + (xend - x) then misses xend by
    // an ulp far more often than for |xend| ~ |x| (this is where closing-step and span-end rounding
    // issues live). Only for problems without a preferred time origin.
    let movable = !matches!(prob, Problem::Riccati | Problem::Disc { .. } | Problem::Robertson | Problem::Forced);
    if movable && rng.bool(0.12) {
        let e = rng.sign() * rng.logu(1e-3, 1e-1);
        let shift = e - xend;
        x0 += shift;
        xend = e;
    }
    let mut sc = Scenario::basic(m, prob, x0, xend, y0);
    sc.entry = entry;
    let rtol = gen_rtol(rng, m);
    sc.rtol = if n > 1 && rng.bool(0.1) {
        // per-component relative tolerance
        (0..n).map(|_| rtol * rng.logu(0.3, 3.0)).collect()
    } else {
        vec![rtol]
    };
    let a = rtol * rng.logu(1e-4, 1.0);
    sc.atol = if rng.bool(0.25) && n > 1 {
        (0..n).map(|_| a * rng.logu(0.1, 10.0)).collect()
    } else {
        vec![a]
    };
    if m == Meth::RK4 {
        let nsteps = rng.int(20, 160);
        sc.first_step = match rng.int(0, 9) {
            0 | 1 | 2 => None,
            // a fixed step that divides the interval ...
            3 | 4 | 5 => Some((xend - x0) / nsteps as f64),
            // ... and one that does not (the closing step is then shortened)
            _ => Some((xend - x0) / (nsteps as f64 + rng.uni(0.05, 0.95))),
        };
    }
    sc.jac = if rng.bool(0.5) { JacMode::Fd } else { JacMode::Analytic };
    if sc.prob.linear_homogeneous() && !matches!(sc.prob, Problem::Zero { .. }) && rng.bool(0.08) {
        // very small / very large state magnitudes: a linear homogeneous problem scales exactly,
        // so only the absolute tolerance has to follow
        let s = (10.0f64).powf(rng.uni(-100.0, 100.0));
        for y in sc.y0.iter_mut() {
            *y *= s;
        }
        for a in sc.atol.iter_mut() {
            *a *= s;
        }
    }
    if class != ProbClass::LinHom && rng.bool(0.03) {
        // zero error scale: pure relative tolerance (atol = 0) on a component that starts at exactly
        // zero. Valid input; the solvers answer it with an immediate honest failure (the weighted
        // norms divide by zero) - which is exactly the kind of branch nobody exercises.
        sc.atol = vec![0.0];
        let n = sc.y0.len();
        if n >= 2 && rng.bool(0.7) {
            sc.y0[n - 1] = 0.0;
        } else {
            for y in sc.y0.iter_mut() {
                *y = 0.0;
            }
        }
    }
    if m.implicit() && class != ProbClass::LinHom && rng.bool(0.04) {
        // singular-by-construction start: y' = lambda*y with first_step chosen so that the very
        // first iteration matrix is exactly singular (BDF: I - (h/alpha_1)*J with alpha_1 = 1.185;
        // RADAU: (U1/h)*I - J with U1 = 3.637834252744496). Exercises the LU-failure recovery
        // paths (halve the step, re-factor) in fault-free runs. Powers of two keep it exact.
        let k = rng.int(0, 6) as i32;
        let d = if backward { -1.0 } else { 1.0 };
        let p2 = (2.0f64).powi(k);
        let (lambda, h0) = if m == Meth::BDF { (d * p2, 1.185 / p2) } else { (d * 3.637_834_252_744_496 * p2, 1.0 / p2) };
        sc.prob = Problem::Decay { lam: -lambda };
        sc.y0 = vec![rng.uni(0.5, 2.0)];
        sc.x0 = if rng.bool(0.5) { 0.0 } else { rng.uni(-2.0, 2.0) };
        sc.xend = sc.x0 + d * h0 * rng.uni(1.5, 4.0);
        sc.first_step = Some(d * h0);
        sc.jac = JacMode::Analytic;
        sc.rtol = vec![sc.rtol[0]];
        sc.atol = vec![sc.atol[0]];
    }
    sc
}

/// Random solver knobs inside their validated ranges (this codebase's "buggify").
pub fn gen_knobs(rng: &mut Rng, m: Meth) -> Knobs {
    let mut k = Knobs::default();
    if rng.bool(0.5) {
        return k;
    }
    if rng.bool(0.5) {
        k.safety_factor = Some(rng.uni(0.5, 0.95));
    }
    if rng.bool(0.5) {
        k.scale_min = Some(rng.uni(0.1, 0.5));
    }
    if rng.bool(0.5) {
        k.scale_max = Some(rng.uni(2.0, 12.0));
    }
    if matches!(m, Meth::DOPRI5 | Meth::DOP853 | Meth::RADAU) && rng.bool(0.2) {
        // the rounding unit used by the step-size underflow guard. The builders accept (1e-35, 1),
        // but a value below the true unit roundoff disables the guard (steps below one ulp of x are
        // then legal and the run may crawl or spin) - that is a misconfiguration, not a defect,
        // so only values at or above the default are drawn
        k.uround = Some(rng.logu(2.3e-16, 1e-12));
    }
    if matches!(m, Meth::DOPRI5 | Meth::DOP853) {
        if rng.bool(0.5) {
            k.beta = Some(rng.uni(0.0, 0.1));
        }
        if rng.bool(0.6) {
            k.stiff_test = Some(*rng.pick(&[1usize, 2, 5, 1000]));
        }
    }
    if m == Meth::RADAU {
        if rng.bool(0.4) {
            // (any value >= 1 is valid; 1 and 2 take a different path through the Newton loop)
            k.newton_maxiter = Some(*rng.pick(&[1usize, 2, 3, 4, 5, 7, 10]));
        }
        if rng.bool(0.3) {
            k.predictive = Some(false);
        }
    }
    if m == Meth::BDF && rng.bool(0.4) {
        // (BDF detects convergence from the ratio of two successive corrections, so a budget of one
        // iteration can only ever 'converge' on an exactly zero correction - a configuration that
        // cannot work and is not drawn)
        k.newton_maxiter = Some(rng.int(2, 6));
    }
    k
}

/// number of times `gen_admissible` gave up (0 on a healthy tree)
pub static GEN_GAVE_UP: std::sync::atomic::AtomicU64 = std::sync::atomic::AtomicU64::new(0);

/// Draw base scenarios until the pilot finishes successfully within the crossing bound.
/// On a healthy tree a handful of draws suffice (the rejection rate is a few per cent). On a tree
/// where some method never finishes a plain run the loop would never end, so it is bounded: after
/// 40 rejected draws the last scenario is returned with a two-point placeholder pilot (the pilot is
/// a placement aid only; the scenario is then checked like any other).
pub fn gen_admissible(
    rng: &mut Rng,
    m: Meth,
    class: ProbClass,
    entry: Entry,
    max_cross: u64,
    tweak: &mut dyn FnMut(&mut Rng, &mut Scenario),
) -> (Scenario, Pilot) {
    let mut draws = 0;
    loop {
        let mut sc = gen_base(rng, m, class, entry);
        tweak(rng, &mut sc);
        if let Some(p) = pilot(&sc) {
            let sane = p.fmax < 1e50 && p.ys.iter().all(|y| y.iter().all(|v| v.is_finite() && v.abs() < 1e50));
            if p.success && sane && p.n_ode <= max_cross && p.grid.len() >= 2 {
                return (sc, p);
            }
        }
        draws += 1;
        if draws >= 40 || crate::run::HANGS.load(std::sync::atomic::Ordering::Relaxed) > 200 {
            GEN_GAVE_UP.fetch_add(1, std::sync::atomic::Ordering::Relaxed);
            let xe = if sc.xend.is_finite() { sc.xend } else { sc.x0 + sc.dir() };
            let p = Pilot {
                grid: vec![sc.x0, xe],
                ys: vec![sc.y0.clone(), sc.y0.clone()],
                cb_ode_calls: vec![1, 2],
                n_ode: 2,
                success: false,
                fmax: 0.0,
            };
            return (sc, p);
        }
    }
}

pub fn gen_fault_kind(rng: &mut Rng) -> FaultKind {
    *rng.pick(&ALL_FAULT_KINDS)
}

pub fn make_fault(rng: &mut Rng, trigger: Trigger, kind: FaultKind, dim: usize) -> FaultSpec {
    FaultSpec {
        trigger,
        kind,
        comp: rng.int(0, dim.max(1) - 1),
        mag: match rng.int(0, 2) {
            0 => rng.logu(1e2, 1e8),
            1 => -rng.logu(1e2, 1e8),
            _ => rng.logu(1.5, 20.0),
        },
    }
}
