//! Fixed catalogue K1..K12 (DESIGN Appendix B) for the enumerated sub-spaces.

use crate::problems::Problem;
use crate::scenario::*;

pub const N_K: usize = 12;

/// Catalogue entry `k` (1-based), for a method and a direction.
pub fn k(id: usize, m: Meth, backward: bool) -> Scenario {
    let (prob, x0, span, y0, rtol, atol): (Problem, f64, f64, Vec<f64>, f64, f64) = match id {
        1 => (Problem::Decay { lam: 1.0 }, 0.0, 2.0, vec![1.0], 1e-4, 1e-7),
        2 => (Problem::Rot { a: -0.3, w: 2.0 }, 0.0, 3.0, vec![1.0, 0.5], 1e-6, 0.0),
        3 => (Problem::Rot { a: -0.3, w: 2.0 }, 1.5, 3.0, vec![1.0, 0.0], 1e-6, 1e-9),
        4 => (
            Problem::Sho { w: 1.0 },
            0.0,
            2.0 * std::f64::consts::PI,
            vec![1.0, 0.0],
            1e-8,
            1e-10,
        ),
        5 => (Problem::Forced, 0.0, 5.0, vec![1.0], 1e-5, 1e-8),
        6 => (Problem::Logistic { r: 2.0 }, 0.0, 4.0, vec![0.1], 1e-6, 1e-9),
        7 => (
            Problem::Stiff3 { l1: 1.0, l2: 10.0, l3: 500.0 },
            0.0,
            1.0,
            vec![1.0, 1.0, 1.0],
            1e-5,
            1e-8,
        ),
        8 => (Problem::Vdp { mu: 2.0 }, 0.0, 6.0, vec![2.0, 0.0], 1e-6, 1e-8),
        9 => (Problem::Blowup, 0.0, 2.0, vec![1.0], 1e-6, 1e-9),
        10 => (Problem::Tan, 0.0, 2.0, vec![0.0], 1e-6, 1e-9),
        11 => (Problem::Disc { tstar: 1.3, mode: 0 }, 0.0, 3.0, vec![1.0], 1e-6, 1e-9),
        12 => (Problem::Decay { lam: 2000.0 }, 0.0, 0.5, vec![1.0], 1e-4, 1e-7),
        _ => panic!("catalogue id"),
    };
    let (x0, xend) = if backward {
        // mirror the interval so that the discontinuity / singularity stays inside it
        match id {
            11 => (3.0, 0.0),
            _ => (x0, x0 - span),
        }
    } else {
        (x0, x0 + span)
    };
    let mut sc = Scenario::basic(m, prob, x0, xend, y0);
    sc.rtol = vec![rtol];
    sc.atol = vec![atol];
    // the RK8 method at 1e-8 on K4 is fine; RK23 at 1e-8 would need thousands of steps
    if m == Meth::RK23 && rtol < 1e-6 {
        sc.rtol = vec![1e-6];
        sc.atol = vec![atol.max(1e-9)];
    }
    if m == Meth::RK4 {
        sc.first_step = Some((xend - x0) / 40.0);
    }
    sc
}

/// problems of the catalogue that have a fault-free successful completion for every method
pub fn k_is_benign(id: usize) -> bool {
    !matches!(id, 9 | 10 | 12)
}
