//! The simulated environment: everything the solver can call back into.
//!
//! `SimIVP` owns seams S1 (`ode`), S2 (`jac`), S3 (`events`); `SimSolOut` owns S4.
//! Every crossing advances the shared logical clock (`ivp::verif::tick(SEAM)`), is logged with a
//! global sequence number, and may be perturbed by the fault plan. Logging never draws random
//! numbers and never reads a clock.

use crate::problems::Problem;
use crate::scenario::*;
use ivp::prelude::*;
use ivp::solout::SolOut;
use std::cell::RefCell;

#[inline]
pub fn fnv(h: &mut u64, bits: u64) {
    *h = (*h ^ bits).wrapping_mul(0x100000001b3);
}

#[derive(Clone, Debug)]
pub struct OdeRec {
    pub seq: u64,
    pub t: f64,
    /// offset into the arena: y at [off, off+n), output at [off+n, off+2n)
    pub off: usize,
    pub in_jac: bool,
    pub faulted: bool,
}

#[derive(Clone, Debug)]
pub struct JacRec {
    pub seq: u64,
    pub t: f64,
    pub off: usize,
}

#[derive(Clone, Debug)]
pub struct EvRec {
    pub seq: u64,
    pub t: f64,
    /// y at [off, off+n), g at [off+n, off+n+ne)
    pub off: usize,
    /// S1 crossings made before this S3 crossing
    pub ode_calls: u64,
}

#[derive(Clone, Debug, Default)]
pub struct SimState {
    pub dim: usize,
    pub record: bool,
    /// global sequence number over S1,S2,S3 crossings
    pub seam_seq: u64,
    /// S1 crossings (all, incl. those made while differencing a Jacobian)
    pub ode_calls: u64,
    /// S1 crossings made inside `jac`
    pub ode_calls_in_jac: u64,
    pub jac_calls: u64,
    pub ev_calls: u64,
    pub in_jac: bool,
    pub odes: Vec<OdeRec>,
    pub jacs: Vec<JacRec>,
    pub evs: Vec<EvRec>,
    pub arena: Vec<f64>,
    /// fired count per fault kind (index = FaultKind as usize)
    pub fired: [u64; 6],
    pub first_fault_call: Option<u64>,
    pub first_nonfinite_call: Option<u64>,
    /// largest finite |f_i| handed out
    pub fmax: f64,
    /// smallest / largest time seen on any seam
    pub t_lo: f64,
    pub t_hi: f64,
    /// running hash of everything that crossed a seam
    pub hash: u64,
    /// times of the 16 most recent S1 crossings (ring buffer) - a progress probe for the watchdog
    pub recent_t: [f64; 16],
    pub recent_n: u64,
    /// running hash of the S1 and S2 crossings only (what the integration itself consumed)
    pub hash12: u64,
    /// the log was cut off at REC_CAP records (oracles that need the full log must block)
    pub truncated: bool,
}

/// upper bound on logged seam crossings per run (memory bound; counting continues)
pub const REC_CAP: usize = 300_000;

pub struct SimIVP {
    pub prob: Problem,
    pub dim: usize,
    pub dir: f64,
    pub faults: Vec<FaultSpec>,
    pub events: Vec<EventSpec>,
    pub jac_mode: JacMode,
    pub st: RefCell<SimState>,
}

impl SimIVP {
    pub fn new(sc: &Scenario, record: bool) -> SimIVP {
        let dim = sc.prob.dim();
        SimIVP {
            prob: sc.prob.clone(),
            dim,
            dir: sc.dir(),
            faults: sc.faults.clone(),
            events: sc.events.clone(),
            jac_mode: sc.jac,
            st: RefCell::new(SimState {
                dim,
                record,
                t_lo: f64::INFINITY,
                t_hi: f64::NEG_INFINITY,
                hash: 0xcbf29ce484222325,
                hash12: 0xcbf29ce484222325,
                ..Default::default()
            }),
        }
    }

    pub fn take_state(&self) -> SimState {
        std::mem::take(&mut *self.st.borrow_mut())
    }

    fn apply_faults(&self, call: u64, t: f64, out: &mut [f64], st: &mut SimState) -> bool {
        let mut any = false;
        for f in &self.faults {
            let on = match f.trigger {
                Trigger::At(n) => call == n,
                Trigger::From(n) => call >= n,
                Trigger::Burst(n, len) => call >= n && call < n + len,
                Trigger::AfterTime(ts) => (t - ts) * self.dir >= 0.0,
            };
            if !on {
                continue;
            }
            any = true;
            st.fired[f.kind as usize] += 1;
            let c = f.comp.min(out.len().saturating_sub(1));
            match f.kind {
                FaultKind::NanAll => out.iter_mut().for_each(|o| *o = f64::NAN),
                FaultKind::NanOne => out[c] = f64::NAN,
                FaultKind::PosInf => out.iter_mut().for_each(|o| *o = f64::INFINITY),
                FaultKind::NegInf => out.iter_mut().for_each(|o| *o = f64::NEG_INFINITY),
                FaultKind::Huge => out.iter_mut().for_each(|o| *o = 1e300),
                FaultKind::Glitch => out[c] = out[c] * f.mag + f.mag,
            }
            if f.kind.non_finite() && st.first_nonfinite_call.is_none() {
                st.first_nonfinite_call = Some(call);
            }
        }
        if any && st.first_fault_call.is_none() {
            st.first_fault_call = Some(call);
        }
        any
    }

    #[inline]
    fn ode_inner(&self, x: f64, y: &[f64], dydx: &mut [f64]) {
        ivp::verif::tick(ivp::verif::SEAM);
        let mut st = self.st.borrow_mut();
        st.ode_calls += 1;
        st.seam_seq += 1;
        let in_jac = st.in_jac;
        if in_jac {
            st.ode_calls_in_jac += 1;
        }
        self.prob.rhs(x, y, dydx);
        let call = st.ode_calls;
        let faulted = if self.faults.is_empty() {
            false
        } else {
            self.apply_faults(call, x, dydx, &mut st)
        };
        for v in dydx.iter() {
            if v.is_finite() && v.abs() > st.fmax {
                st.fmax = v.abs();
            }
        }
        if x < st.t_lo {
            st.t_lo = x;
        }
        if x > st.t_hi {
            st.t_hi = x;
        }
        let slot = (st.recent_n % 16) as usize;
        st.recent_t[slot] = x;
        st.recent_n += 1;
        let mut h = st.hash;
        fnv(&mut h, 1);
        fnv(&mut h, x.to_bits());
        for v in y {
            fnv(&mut h, v.to_bits());
        }
        for v in dydx.iter() {
            fnv(&mut h, v.to_bits());
        }
        st.hash = h;
        let mut h2 = st.hash12;
        fnv(&mut h2, 1);
        fnv(&mut h2, x.to_bits());
        for v in y {
            fnv(&mut h2, v.to_bits());
        }
        for v in dydx.iter() {
            fnv(&mut h2, v.to_bits());
        }
        st.hash12 = h2;
        if st.record && st.odes.len() >= REC_CAP {
            st.record = false;
            st.truncated = true;
        }
        if st.record {
            let off = st.arena.len();
            st.arena.extend_from_slice(y);
            st.arena.extend_from_slice(dydx);
            let seq = st.seam_seq;
            st.odes.push(OdeRec {
                seq,
                t: x,
                off,
                in_jac,
                faulted,
            });
        }
    }
}

/// Forwards `ode` to the simulator and inherits the crate's *default* `IVP::jac`
/// (the shipped finite-difference code), so that FD-internal S1 crossings are executed for real
/// and tagged `in_jac`.
struct FdAdapter<'a>(&'a SimIVP);

impl<'a> IVP for FdAdapter<'a> {
    fn ode(&self, x: f64, y: &[f64], dydx: &mut [f64]) {
        self.0.ode_inner(x, y, dydx)
    }
}

impl IVP for SimIVP {
    fn ode(&self, x: f64, y: &[f64], dydx: &mut [f64]) {
        self.ode_inner(x, y, dydx)
    }

    fn jac(&self, x: f64, y: &[f64], j: &mut Matrix) {
        ivp::verif::tick(ivp::verif::SEAM);
        {
            let mut st = self.st.borrow_mut();
            st.jac_calls += 1;
            st.seam_seq += 1;
            if x < st.t_lo {
                st.t_lo = x;
            }
            if x > st.t_hi {
                st.t_hi = x;
            }
            let mut h = st.hash;
            fnv(&mut h, 2);
            fnv(&mut h, x.to_bits());
            for v in y {
                fnv(&mut h, v.to_bits());
            }
            st.hash = h;
            let mut h2 = st.hash12;
            fnv(&mut h2, 2);
            fnv(&mut h2, x.to_bits());
            for v in y {
                fnv(&mut h2, v.to_bits());
            }
            st.hash12 = h2;
            if st.record {
                let off = st.arena.len();
                st.arena.extend_from_slice(y);
                let seq = st.seam_seq;
                st.jacs.push(JacRec { seq, t: x, off });
            }
        }
        match self.jac_mode {
            JacMode::Analytic => {
                self.prob.jac(x, y, |r, c, v| j[(r, c)] = v);
            }
            JacMode::Fd => {
                self.st.borrow_mut().in_jac = true;
                // If the watchdog unwinds from inside, `in_jac` stays set; the run is over anyway.
                FdAdapter(self).jac(x, y, j);
                self.st.borrow_mut().in_jac = false;
            }
        }
    }

    fn events(&self, x: f64, y: &[f64], out: &mut [f64]) {
        ivp::verif::tick(ivp::verif::SEAM);
        for (i, e) in self.events.iter().enumerate() {
            out[i] = e.eval(x, y);
        }
        let mut st = self.st.borrow_mut();
        st.ev_calls += 1;
        st.seam_seq += 1;
        if x < st.t_lo {
            st.t_lo = x;
        }
        if x > st.t_hi {
            st.t_hi = x;
        }
        let mut h = st.hash;
        fnv(&mut h, 3);
        fnv(&mut h, x.to_bits());
        for v in y {
            fnv(&mut h, v.to_bits());
        }
        st.hash = h;
        if st.record {
            let off = st.arena.len();
            st.arena.extend_from_slice(y);
            st.arena.extend_from_slice(out);
            let seq = st.seam_seq;
            let ode_calls = st.ode_calls;
            st.evs.push(EvRec {
                seq,
                t: x,
                off,
                ode_calls,
            });
        }
    }

    fn n_events(&self) -> usize {
        self.events.len()
    }

    fn event_config(&self, i: usize) -> EventConfig {
        // built through the public API, the way user code does it (a struct literal would leave
        // `terminal()`, `positive()`, `Direction::from(int)` ... unexercised): event function i uses
        // the convenience methods (i % 3 == 0), the general setters with the enum (1), or the
        // general setters with the documented integer conversion, any positive / negative
        // integer (2)
        let e = &self.events[i];
        let mut c = EventConfig::new();
        match i % 3 {
            0 => {
                match e.dir {
                    Dir::All => c.all(),
                    Dir::Pos => c.positive(),
                    Dir::Neg => c.negative(),
                }
                match e.terminal {
                    Some(1) => c.terminal(),
                    Some(n) => c.terminal_count(n),
                    None => {}
                }
            }
            1 => {
                c.direction(match e.dir {
                    Dir::All => Direction::All,
                    Dir::Pos => Direction::Positive,
                    Dir::Neg => Direction::Negative,
                });
                if let Some(n) = e.terminal {
                    c.terminal_count(n);
                }
            }
            _ => {
                let k = [2i32, 7, i32::MAX, 1][(i / 3) % 4];
                c.direction(Direction::from(match e.dir {
                    Dir::All => 0,
                    Dir::Pos => k,
                    Dir::Neg => -k,
                }));
                if let Some(n) = e.terminal {
                    c.terminal_count(n);
                }
            }
        }
        c
    }
}

/// One S4 crossing as seen by the simulator-owned `SolOut`.
#[derive(Clone, Debug)]
pub struct CbRec {
    pub xold: f64,
    pub x: f64,
    /// state handed to the callback
    pub y_in: Vec<f64>,
    /// state left behind by the callback (differs from y_in after a Mod* action)
    pub y_out: Vec<f64>,
    pub action: Option<Action>,
    pub has_interp: bool,
    pub ip_xold: f64,
    pub ip_h: f64,
    pub bounds: (f64, f64),
    pub at_xold: Vec<f64>,
    pub at_x: Vec<f64>,
    pub at_mid: Vec<f64>,
    /// environment counters at the moment of the callback
    pub seam_seq: u64,
    pub ode_calls: u64,
    pub jac_calls: u64,
    pub fmax: f64,
}

pub struct SimSolOut<'a> {
    pub sim: &'a SimIVP,
    pub plan: Vec<(usize, Action)>,
    pub recs: Vec<CbRec>,
    /// callbacks delivered after an Interrupt was returned (protocol violation if > 0)
    pub after_interrupt: usize,
    pub interrupted: bool,
    /// stop recording detail beyond this many callbacks (memory bound); counting continues
    pub max_recs: usize,
    pub n_calls: usize,
}

impl<'a> SimSolOut<'a> {
    pub fn new(sim: &'a SimIVP, plan: Vec<(usize, Action)>) -> Self {
        SimSolOut {
            sim,
            plan,
            recs: Vec::new(),
            after_interrupt: 0,
            interrupted: false,
            max_recs: 200_000,
            n_calls: 0,
        }
    }
}

impl<'a> SolOut for SimSolOut<'a> {
    fn solout(
        &mut self,
        xold: f64,
        x: &mut f64,
        y: &mut [f64],
        interpolant: Option<&StepInterpolant<'_>>,
    ) -> ControlFlag {
        ivp::verif::tick(ivp::verif::SEAM);
        let k = self.n_calls;
        self.n_calls += 1;
        if self.interrupted {
            self.after_interrupt += 1;
        }
        let n = y.len();
        let (seam_seq, ode_calls, jac_calls, fmax) = {
            let mut st = self.sim.st.borrow_mut();
            let mut h = st.hash;
            fnv(&mut h, 4);
            fnv(&mut h, xold.to_bits());
            fnv(&mut h, x.to_bits());
            for v in y.iter() {
                fnv(&mut h, v.to_bits());
            }
            st.hash = h;
            (st.seam_seq, st.ode_calls, st.jac_calls, st.fmax)
        };
        let mut rec = CbRec {
            xold,
            x: *x,
            y_in: y.to_vec(),
            y_out: Vec::new(),
            action: None,
            has_interp: interpolant.is_some(),
            ip_xold: f64::NAN,
            ip_h: f64::NAN,
            bounds: (f64::NAN, f64::NAN),
            at_xold: Vec::new(),
            at_x: Vec::new(),
            at_mid: Vec::new(),
            seam_seq,
            ode_calls,
            jac_calls,
            fmax,
        };
        if let Some(ip) = interpolant {
            let (a, h) = ip.step_params();
            rec.ip_xold = a;
            rec.ip_h = h;
            rec.bounds = ip.bounds();
            let mut buf = vec![0.0; n];
            ip.interpolate(xold, &mut buf);
            rec.at_xold = buf.clone();
            ip.interpolate(*x, &mut buf);
            rec.at_x = buf.clone();
            ip.interpolate(xold + 0.5 * (*x - xold), &mut buf);
            rec.at_mid = buf;
        }
        let mut flag = ControlFlag::Continue;
        for (kk, a) in &self.plan {
            if *kk == k {
                rec.action = Some(a.clone());
                match a {
                    Action::Interrupt => {
                        self.interrupted = true;
                        flag = ControlFlag::Interrupt;
                    }
                    Action::ModIdentity => flag = ControlFlag::ModifiedSolution,
                    Action::ModScale(f) => {
                        for v in y.iter_mut() {
                            *v *= *f;
                        }
                        flag = ControlFlag::ModifiedSolution;
                    }
                    Action::ModPerturb(eps) => {
                        for v in y.iter_mut() {
                            *v += *eps * (1.0 + v.abs());
                        }
                        flag = ControlFlag::ModifiedSolution;
                    }
                    Action::XOut(xo) => flag = ControlFlag::XOut(*xo),
                }
                break;
            }
        }
        rec.y_out = y.to_vec();
        if self.recs.len() < self.max_recs {
            self.recs.push(rec);
        }
        flag
    }
}
