//! Serde helpers: floats are stored as "<decimal>|0x<bits>" strings so that replay files are
//! bit-exact (incl. inf/NaN) and still readable.

use serde::{Deserialize, Deserializer, Serializer};

pub fn enc(v: f64) -> String {
    format!("{:e}|0x{:016x}", v, v.to_bits())
}

pub fn dec(s: &str) -> Result<f64, String> {
    let hex = match s.rfind("0x") {
        Some(i) => &s[i + 2..],
        None => return s.trim().parse::<f64>().map_err(|e| format!("bad float {s}: {e}")),
    };
    u64::from_str_radix(hex.trim(), 16)
        .map(f64::from_bits)
        .map_err(|e| format!("bad float bits {s}: {e}"))
}

pub fn serialize<S: Serializer>(v: &f64, s: S) -> Result<S::Ok, S::Error> {
    s.serialize_str(&enc(*v))
}

pub fn deserialize<'de, D: Deserializer<'de>>(d: D) -> Result<f64, D::Error> {
    let s = String::deserialize(d)?;
    dec(&s).map_err(serde::de::Error::custom)
}

pub mod vec {
    use super::*;
    use serde::ser::SerializeSeq;
    pub fn serialize<S: Serializer>(v: &Vec<f64>, s: S) -> Result<S::Ok, S::Error> {
        let mut seq = s.serialize_seq(Some(v.len()))?;
        for x in v {
            seq.serialize_element(&enc(*x))?;
        }
        seq.end()
    }
    pub fn deserialize<'de, D: Deserializer<'de>>(d: D) -> Result<Vec<f64>, D::Error> {
        let v = Vec::<String>::deserialize(d)?;
        v.iter()
            .map(|s| dec(s).map_err(serde::de::Error::custom))
            .collect()
    }
}

pub mod opt {
    use super::*;
    pub fn serialize<S: Serializer>(v: &Option<f64>, s: S) -> Result<S::Ok, S::Error> {
        match v {
            Some(x) => s.serialize_some(&enc(*x)),
            None => s.serialize_none(),
        }
    }
    pub fn deserialize<'de, D: Deserializer<'de>>(d: D) -> Result<Option<f64>, D::Error> {
        let v = Option::<String>::deserialize(d)?;
        match v {
            Some(s) => dec(&s).map(Some).map_err(serde::de::Error::custom),
            None => Ok(None),
        }
    }
}

pub mod optvec {
    use super::*;
    pub fn serialize<S: Serializer>(v: &Option<Vec<f64>>, s: S) -> Result<S::Ok, S::Error> {
        match v {
            Some(x) => {
                let strs: Vec<String> = x.iter().map(|f| enc(*f)).collect();
                s.serialize_some(&strs)
            }
            None => s.serialize_none(),
        }
    }
    pub fn deserialize<'de, D: Deserializer<'de>>(d: D) -> Result<Option<Vec<f64>>, D::Error> {
        let v = Option::<Vec<String>>::deserialize(d)?;
        match v {
            Some(x) => x
                .iter()
                .map(|s| dec(s).map_err(serde::de::Error::custom))
                .collect::<Result<Vec<f64>, _>>()
                .map(Some),
            None => Ok(None),
        }
    }
}
