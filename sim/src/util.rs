//! Small numeric helpers shared by the oracles (tolerances of DESIGN §5).

use crate::scenario::{Meth, Scenario};

pub const EPS: f64 = f64::EPSILON;

pub fn all_finite(v: &[f64]) -> bool {
    v.iter().all(|x| x.is_finite())
}

pub fn norm_inf(v: &[f64]) -> f64 {
    v.iter().fold(0.0f64, |a, x| a.max(x.abs()))
}

pub fn bits_eq(a: &[f64], b: &[f64]) -> bool {
    a.len() == b.len() && a.iter().zip(b).all(|(x, y)| x.to_bits() == y.to_bits())
}

/// absolute slack for statements about reconstructed times: 8*eps*X
pub fn delta_t(sc: &Scenario, t: f64) -> f64 {
    let x = sc.xscale().max(if t.is_finite() { t.abs() } else { 0.0 });
    8.0 * EPS * x.max(f64::MIN_POSITIVE)
}

/// interpolant-consistency tolerance tau_I = c_m*S + 64*eps*X*F + 1e-6*min(atol)
pub fn tau_i(m: Meth, s: f64, x: f64, f: f64, min_atol: f64) -> f64 {
    let cm = if m == Meth::BDF { 1e-8 } else { 1e-11 };
    cm * s + 64.0 * EPS * x * f + 1e-6 * min_atol
}

pub fn max_abs_diff(a: &[f64], b: &[f64]) -> f64 {
    a.iter()
        .zip(b)
        .fold(0.0f64, |m, (x, y)| {
            let d = (x - y).abs();
            if d.is_nan() { f64::INFINITY } else { m.max(d) }
        })
}
