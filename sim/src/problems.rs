//! Problem library (simulated environment: right-hand sides and analytic Jacobians).
//! All tiny (dim 1..4). No exact solutions are needed: accuracy is not a claimed property.

use crate::hexf;
use serde::{Deserialize, Serialize};

#[derive(Serialize, Deserialize, Clone, Debug, PartialEq)]
pub enum Problem {
    /// y' = -lam*y
    Decay {
        #[serde(with = "hexf")]
        lam: f64,
    },
    /// y0' = a*y0 - w*y1 ; y1' = w*y0 + a*y1   (linear homogeneous)
    Rot {
        #[serde(with = "hexf")]
        a: f64,
        #[serde(with = "hexf")]
        w: f64,
    },
    /// y0' = y1 ; y1' = -w^2 y0
    Sho {
        #[serde(with = "hexf")]
        w: f64,
    },
    /// y' = -y + sin t
    Forced,
    /// y' = r*y*(1-y)
    Logistic {
        #[serde(with = "hexf")]
        r: f64,
    },
    /// y' = 0 (dimension n)
    Zero { n: usize },
    /// upper-triangular linear 3x3 with decay rates l1,l2,l3 (linear homogeneous, mildly stiff)
    Stiff3 {
        #[serde(with = "hexf")]
        l1: f64,
        #[serde(with = "hexf")]
        l2: f64,
        #[serde(with = "hexf")]
        l3: f64,
    },
    /// Van der Pol
    Vdp {
        #[serde(with = "hexf")]
        mu: f64,
    },
    /// y' = y^2 (finite-time blow-up)
    Blowup,
    /// y' = 1 + y^2
    Tan,
    /// discontinuous RHS at tstar; mode 0: -y before, +1 after; mode 1: -1 before, +1 after;
    /// mode 2: 1 before, 100 after
    Disc {
        #[serde(with = "hexf")]
        tstar: f64,
        mode: u8,
    },
    /// 4-dim coupled pair of damped rotations (linear homogeneous)
    Lin4 {
        #[serde(with = "hexf")]
        a: f64,
        #[serde(with = "hexf")]
        w1: f64,
        #[serde(with = "hexf")]
        b: f64,
        #[serde(with = "hexf")]
        w2: f64,
        #[serde(with = "hexf")]
        c: f64,
    },
    /// Robertson chemical kinetics (stiff, nonlinear, dim 3)
    Robertson,
    /// y' = -2 t y^2
    Riccati,
}

impl Problem {
    pub fn dim(&self) -> usize {
        match self {
            Problem::Decay { .. }
            | Problem::Forced
            | Problem::Logistic { .. }
            | Problem::Blowup
            | Problem::Tan
            | Problem::Disc { .. }
            | Problem::Riccati => 1,
            Problem::Rot { .. } | Problem::Sho { .. } | Problem::Vdp { .. } => 2,
            Problem::Stiff3 { .. } | Problem::Robertson => 3,
            Problem::Lin4 { .. } => 4,
            Problem::Zero { n } => *n,
        }
    }

    pub fn name(&self) -> &'static str {
        match self {
            Problem::Decay { .. } => "decay",
            Problem::Rot { .. } => "rot",
            Problem::Sho { .. } => "sho",
            Problem::Forced => "forced",
            Problem::Logistic { .. } => "logistic",
            Problem::Zero { .. } => "zero",
            Problem::Stiff3 { .. } => "stiff3",
            Problem::Vdp { .. } => "vdp",
            Problem::Blowup => "blowup",
            Problem::Tan => "tan",
            Problem::Disc { .. } => "disc",
            Problem::Lin4 { .. } => "lin4",
            Problem::Robertson => "robertson",
            Problem::Riccati => "riccati",
        }
    }

    /// y' = A y with constant A (needed by the C19 doubling oracle).
    pub fn linear_homogeneous(&self) -> bool {
        matches!(
            self,
            Problem::Decay { .. }
                | Problem::Rot { .. }
                | Problem::Sho { .. }
                | Problem::Stiff3 { .. }
                | Problem::Lin4 { .. }
                | Problem::Zero { .. }
        )
    }

    /// Problems that have no fault-free completion on a span crossing their singularity.
    pub fn intrinsic_failure(&self) -> bool {
        matches!(self, Problem::Blowup | Problem::Tan)
    }

    #[inline]
    pub fn rhs(&self, t: f64, y: &[f64], out: &mut [f64]) {
        match *self {
            Problem::Decay { lam } => out[0] = -lam * y[0],
            Problem::Rot { a, w } => {
                out[0] = a * y[0] - w * y[1];
                out[1] = w * y[0] + a * y[1];
            }
            Problem::Sho { w } => {
                out[0] = y[1];
                out[1] = -(w * w) * y[0];
            }
            Problem::Forced => out[0] = -y[0] + t.sin(),
            Problem::Logistic { r } => out[0] = r * y[0] * (1.0 - y[0]),
            Problem::Zero { .. } => {
                for o in out.iter_mut() {
                    *o = 0.0;
                }
            }
            Problem::Stiff3 { l1, l2, l3 } => {
                out[0] = -l1 * y[0] + y[1];
                out[1] = -l2 * y[1] + y[2];
                out[2] = -l3 * y[2];
            }
            Problem::Vdp { mu } => {
                out[0] = y[1];
                out[1] = mu * (1.0 - y[0] * y[0]) * y[1] - y[0];
            }
            Problem::Blowup => out[0] = y[0] * y[0],
            Problem::Tan => out[0] = 1.0 + y[0] * y[0],
            Problem::Disc { tstar, mode } => {
                out[0] = match mode {
                    0 => {
                        if t < tstar {
                            -y[0]
                        } else {
                            1.0
                        }
                    }
                    1 => {
                        if t < tstar {
                            -1.0
                        } else {
                            1.0
                        }
                    }
                    _ => {
                        if t < tstar {
                            1.0
                        } else {
                            100.0
                        }
                    }
                }
            }
            Problem::Lin4 { a, w1, b, w2, c } => {
                out[0] = a * y[0] - w1 * y[1];
                out[1] = w1 * y[0] + a * y[1];
                out[2] = b * y[2] - w2 * y[3] + c * y[0];
                out[3] = w2 * y[2] + b * y[3];
            }
            Problem::Robertson => {
                out[0] = -0.04 * y[0] + 1.0e4 * y[1] * y[2];
                out[1] = 0.04 * y[0] - 1.0e4 * y[1] * y[2] - 3.0e7 * y[1] * y[1];
                out[2] = 3.0e7 * y[1] * y[1];
            }
            Problem::Riccati => out[0] = -2.0 * t * y[0] * y[0],
        }
    }

    /// Analytic Jacobian, written through a setter so that the caller can fill an `ivp::Matrix`.
    pub fn jac(&self, t: f64, y: &[f64], mut set: impl FnMut(usize, usize, f64)) {
        match *self {
            Problem::Decay { lam } => set(0, 0, -lam),
            Problem::Rot { a, w } => {
                set(0, 0, a);
                set(0, 1, -w);
                set(1, 0, w);
                set(1, 1, a);
            }
            Problem::Sho { w } => {
                set(0, 0, 0.0);
                set(0, 1, 1.0);
                set(1, 0, -(w * w));
                set(1, 1, 0.0);
            }
            Problem::Forced => set(0, 0, -1.0),
            Problem::Logistic { r } => set(0, 0, r * (1.0 - 2.0 * y[0])),
            Problem::Zero { n } => {
                for i in 0..n {
                    for j in 0..n {
                        set(i, j, 0.0);
                    }
                }
            }
            Problem::Stiff3 { l1, l2, l3 } => {
                let m = [[-l1, 1.0, 0.0], [0.0, -l2, 1.0], [0.0, 0.0, -l3]];
                for i in 0..3 {
                    for j in 0..3 {
                        set(i, j, m[i][j]);
                    }
                }
            }
            Problem::Vdp { mu } => {
                set(0, 0, 0.0);
                set(0, 1, 1.0);
                set(1, 0, -2.0 * mu * y[0] * y[1] - 1.0);
                set(1, 1, mu * (1.0 - y[0] * y[0]));
            }
            Problem::Blowup => set(0, 0, 2.0 * y[0]),
            Problem::Tan => set(0, 0, 2.0 * y[0]),
            Problem::Disc { tstar, mode } => {
                let v = if mode == 0 && t < tstar { -1.0 } else { 0.0 };
                set(0, 0, v);
            }
            Problem::Lin4 { a, w1, b, w2, c } => {
                let m = [
                    [a, -w1, 0.0, 0.0],
                    [w1, a, 0.0, 0.0],
                    [c, 0.0, b, -w2],
                    [0.0, 0.0, w2, b],
                ];
                for i in 0..4 {
                    for j in 0..4 {
                        set(i, j, m[i][j]);
                    }
                }
            }
            Problem::Robertson => {
                let m = [
                    [-0.04, 1.0e4 * y[2], 1.0e4 * y[1]],
                    [0.04, -1.0e4 * y[2] - 6.0e7 * y[1], -1.0e4 * y[1]],
                    [0.0, 6.0e7 * y[1], 0.0],
                ];
                for i in 0..3 {
                    for j in 0..3 {
                        set(i, j, m[i][j]);
                    }
                }
            }
            Problem::Riccati => set(0, 0, -4.0 * t * y[0]),
        }
    }
}
