//! Shared framework: violations, coverage accounting, the property trait, the parallel
//! campaign driver (deterministic merge order), known-findings classification.

use crate::run::{HighOut, LowOut, Verdict};
use crate::scenario::Scenario;
use serde::{Deserialize, Serialize};
use std::collections::{BTreeMap, BTreeSet};
use std::sync::atomic::{AtomicU64, Ordering};
use std::sync::Mutex;

#[derive(Clone, Copy, Debug, PartialEq, Eq)]
pub enum Tier {
    Quick,
    Thorough,
}

impl Tier {
    pub fn name(self) -> &'static str {
        match self {
            Tier::Quick => "quick",
            Tier::Thorough => "thorough",
        }
    }
}

#[derive(Clone, Debug, Serialize, Deserialize)]
pub struct Violation {
    pub property: String,
    /// e.g. "C04.hang"
    pub oracle: String,
    pub detail: String,
}

pub fn viol(property: &str, oracle: &str, detail: String) -> Violation {
    Violation {
        property: property.to_string(),
        oracle: format!("{property}.{oracle}"),
        detail,
    }
}

/// Coverage measured by the run itself.
#[derive(Clone, Debug, Default)]
pub struct Cov {
    /// simulated executions of the real code (twins counted)
    pub evaluations: u64,
    /// scenarios (cases) checked
    pub cases: u64,
    /// fingerprints of non-trivial cases (rule is property specific)
    pub nontrivial: BTreeSet<u64>,
    /// cases skipped by a precondition of the oracle (foreign-property trouble)
    pub blocked: u64,
    pub counters: BTreeMap<String, u64>,
    pub sites: [u64; ivp::verif::N_SITES],
    /// simulated clock: total seam crossings + loop ticks
    pub ticks: u64,
    /// simulated time: total |t| integrated (sum over runs of the covered |span|)
    pub sim_time: f64,
    pub samples: Vec<serde_json::Value>,
    pub exhaustive_spaces: BTreeMap<String, u64>,
}

impl Cov {
    pub fn bump(&mut self, key: &str) {
        *self.counters.entry(key.to_string()).or_insert(0) += 1;
    }
    pub fn add(&mut self, key: &str, n: u64) {
        if n > 0 {
            *self.counters.entry(key.to_string()).or_insert(0) += n;
        }
    }
    /// record a running maximum (key must start with "max.")
    pub fn maxi(&mut self, key: &str, v: u64) {
        let e = self.counters.entry(key.to_string()).or_insert(0);
        *e = (*e).max(v);
    }
    pub fn sample(&mut self, v: serde_json::Value) {
        if self.samples.len() < 4 {
            self.samples.push(v);
        }
    }
    pub fn note_fired(&mut self, fired: &[u64; 6]) {
        use crate::scenario::ALL_FAULT_KINDS;
        for (i, k) in ALL_FAULT_KINDS.iter().enumerate() {
            self.add(&format!("fault_fired.{}", k.name()), fired[i]);
        }
    }
    fn note_common(&mut self, verdict: &Verdict, ticks: u64, sites: &[u64; ivp::verif::N_SITES]) {
        self.evaluations += 1;
        self.ticks += ticks;
        for i in 0..sites.len() {
            self.sites[i] += sites[i];
        }
        self.bump(&format!("verdict.{}", verdict.name()));
    }
    pub fn note_high(&mut self, o: &HighOut) {
        self.note_common(&o.verdict, o.ticks, &o.sites);
        self.note_fired(&o.st.fired);
        if let Some(s) = &o.sol {
            self.bump(&format!("status.{}", crate::run::status_name(s.status)));
            if let (Some(a), Some(b)) = (s.t.first(), s.t.last()) {
                let d = (b - a).abs();
                if d.is_finite() {
                    self.sim_time += d;
                }
            }
        }
    }
    pub fn note_low(&mut self, o: &LowOut) {
        self.note_common(&o.verdict, o.ticks, &o.sites);
        self.note_fired(&o.st.fired);
        if let Some(r) = &o.res {
            self.bump(&format!("status.{}", crate::run::status_name(r.status)));
        }
        if let (Some(a), Some(b)) = (o.cbs.first(), o.cbs.last()) {
            let d = (b.x - a.x).abs();
            if d.is_finite() {
                self.sim_time += d;
            }
        }
    }
    pub fn merge(&mut self, o: Cov) {
        self.evaluations += o.evaluations;
        self.cases += o.cases;
        self.blocked += o.blocked;
        self.ticks += o.ticks;
        self.sim_time += o.sim_time;
        for (k, v) in o.counters {
            if k.starts_with("max.") {
                let e = self.counters.entry(k).or_insert(0);
                *e = (*e).max(v);
            } else {
                *self.counters.entry(k).or_insert(0) += v;
            }
        }
        for i in 0..self.sites.len() {
            self.sites[i] += o.sites[i];
        }
        self.nontrivial.extend(o.nontrivial);
        for s in o.samples {
            self.sample(s);
        }
        for (k, v) in o.exhaustive_spaces {
            *self.exhaustive_spaces.entry(k).or_insert(0) += v;
        }
    }
}

pub trait Prop: Sync {
    fn id(&self) -> &'static str;
    fn level(&self) -> &'static str;
    fn rule(&self) -> String;
    fn assumptions(&self) -> Vec<String>;
    /// number of work items (enumerated bases first, then sampled chunks)
    fn n_items(&self, tier: Tier) -> u64;
    /// expand one work item into explicit scenarios (may run pilots against the real code)
    fn expand(&self, item: u64, tier: Tier, seed: u64) -> Vec<Scenario>;
    /// all oracles of this property on one scenario; a pure function of the scenario
    fn check(&self, sc: &Scenario, cov: &mut Cov) -> Vec<Violation>;
    /// true when every enumerated sub-space was covered completely
    fn exhaustive(&self, _tier: Tier) -> bool {
        false
    }
    /// number of leading work items that are enumerated (catalogue) rather than sampled
    fn n_enumerated_items(&self, _tier: Tier) -> u64 {
        0
    }
}

/// `Prop::check` with a safety net: the oracles call into the real code *after* the run as well
/// (Solution::sol, sol_many, interpolants). A panic there must not take the harness down: if it
/// comes from the library it is a violation for the checks that own "never panics" / "sol
/// succeeds" (C04, C06) and a blocked case for the others; a panic in the harness's own code is a
/// harness error (exit 2).
pub fn guarded_check(prop: &dyn Prop, sc: &Scenario, cov: &mut Cov) -> Vec<Violation> {
    let r = std::panic::catch_unwind(std::panic::AssertUnwindSafe(|| prop.check(sc, cov)));
    match r {
        Ok(v) => v,
        Err(_) => {
            ivp::verif::reset(u64::MAX);
            let msg = crate::run::take_last_panic().unwrap_or_else(|| "panic without message".to_string());
            let in_library = msg.contains("/repo/") || msg.contains("library/core") || msg.contains("library/alloc") || msg.contains("library/std");
            let in_harness = msg.contains("src/props/") || msg.contains("src/core.rs") || msg.contains("src/gen.rs") || msg.contains("src/protocol.rs") || msg.contains("src/env.rs") || msg.contains("src/run.rs");
            if in_harness && !msg.contains("/repo/") {
                eprintln!("harness error: panic in the harness itself: {msg} :: {}", sc.summary());
                std::process::exit(2);
            }
            let _ = in_library;
            if prop.id() == "C06" || prop.id() == "C04" {
                vec![viol(prop.id(), "panic_after_run", format!("the library panicked while the result was being queried (sol / sol_many / interpolant): {msg}"))]
            } else {
                cov.blocked += 1;
                cov.bump("blocked.library_panic_after_run");
                vec![]
            }
        }
    }
}

pub struct Found {
    pub item: u64,
    pub index: usize,
    pub scenario: Scenario,
    pub violations: Vec<Violation>,
}

pub struct CampaignResult {
    pub cov: Cov,
    pub found: Vec<Found>,
    pub total_violating_cases: u64,
}

/// Run all work items on `workers` threads. Results are merged in item order, so the outcome
/// is independent of the worker count and of thread timing.
pub fn run_campaign(prop: &dyn Prop, tier: Tier, seed: u64, workers: usize) -> CampaignResult {
    let n = prop.n_items(tier);
    let next = AtomicU64::new(0);
    let slots: Vec<Mutex<Option<(Cov, Vec<Found>, u64)>>> =
        (0..n).map(|_| Mutex::new(None)).collect();
    std::thread::scope(|s| {
        for _ in 0..workers.max(1) {
            s.spawn(|| loop {
                let i = next.fetch_add(1, Ordering::Relaxed);
                if i >= n {
                    break;
                }
                // On a tree where runs hang, a campaign that does not own termination (everything
                // but C04) gives up early instead of burning a watchdog budget per run; what it
                // skipped is reported in the evidence (`aborted_items`). Never happens on a healthy tree.
                // (C04 itself stops expanding once 50 runs were judged stuck - each of them is
                // already a reported violation, and a stuck run costs 9 watchdog budgets - or once
                // 200 runs needed the 8x budget to finish: a healthy tree has 0 or 1 of those)
                let tree_hangs = || {
                    (prop.id() != "C04" && crate::run::HANGS.load(Ordering::Relaxed) > 200)
                        || crate::run::STUCK.load(Ordering::Relaxed) > 50
                        || crate::run::RETRIED.load(Ordering::Relaxed) > 200
                };
                if tree_hangs() {
                    let mut cov = Cov::default();
                    cov.bump("aborted_items_after_200_hung_runs");
                    *slots[i as usize].lock().unwrap() = Some((cov, Vec::new(), 0));
                    continue;
                }
                let scs = prop.expand(i, tier, seed);
                let mut cov = Cov::default();
                if i == 0 {
                    if let Some(first) = scs.first() {
                        // one complete, replayable case (exactly what a replay file stores)
                        cov.sample(serde_json::json!({"complete_scenario_example": first}));
                    }
                }
                if i < prop.n_enumerated_items(tier) {
                    *cov.exhaustive_spaces.entry("enumerated_bases".into()).or_insert(0) += 1;
                    *cov.exhaustive_spaces.entry("enumerated_cases".into()).or_insert(0) += scs.len() as u64;
                } else {
                    *cov.exhaustive_spaces.entry("sampled_cases".into()).or_insert(0) += scs.len() as u64;
                }
                let mut found = Vec::new();
                let mut nviol = 0u64;
                for (j, sc) in scs.iter().enumerate() {
                    if tree_hangs() {
                        // (an enumerated item can hold thousands of cases)
                        cov.bump("aborted_items_after_200_hung_runs");
                        break;
                    }
                    cov.cases += 1;
                    let t_before = cov.ticks;
                    let v = guarded_check(prop, sc, &mut cov);
                    if std::env::var_os("VERIF_DEBUG_SLOW").is_some() && cov.ticks - t_before > 1_000_000 {
                        eprintln!("slow case item={} idx={} ticks={} :: {}", i, j, cov.ticks - t_before, sc.summary());
                    }
                    if !v.is_empty() {
                        nviol += 1;
                        // keep at most a few per item, but at least one per distinct oracle
                        let new_oracle = !found.iter().any(|f: &Found| {
                            f.violations.iter().any(|a| v.iter().any(|b| a.oracle == b.oracle))
                        });
                        if found.len() < 3 || (new_oracle && found.len() < 12) {
                            found.push(Found {
                                item: i,
                                index: j,
                                scenario: sc.clone(),
                                violations: v,
                            });
                        }
                    }
                }
                *slots[i as usize].lock().unwrap() = Some((cov, found, nviol));
            });
        }
    });
    let mut cov = Cov::default();
    let mut found = Vec::new();
    let mut total = 0;
    for slot in slots {
        if let Some((c, f, nv)) = slot.into_inner().unwrap() {
            cov.merge(c);
            total += nv;
            for x in f {
                if found.len() < 2000 {
                    found.push(x);
                }
            }
        }
    }
    CampaignResult {
        cov,
        found,
        total_violating_cases: total,
    }
}

// ---------------------------------------------------------------------------------------------
// Known findings
// ---------------------------------------------------------------------------------------------

#[derive(Clone, Debug, Serialize, Deserialize)]
pub struct KnownFinding {
    pub id: String,
    pub property: String,
    /// oracle ids this entry covers
    pub oracles: Vec<String>,
    /// conjunction over scenario features: feature -> accepted values
    pub predicate: BTreeMap<String, Vec<String>>,
    pub what: String,
    /// "open" or "fixed:<commit>"; only "open" entries classify anything
    pub status: String,
}

#[derive(Clone, Debug, Serialize, Deserialize, Default)]
pub struct KnownFindings {
    pub findings: Vec<KnownFinding>,
}

impl KnownFindings {
    pub fn load(path: &str) -> KnownFindings {
        match std::fs::read_to_string(path) {
            Ok(s) => serde_json::from_str(&s).unwrap_or_else(|e| {
                eprintln!("harness error: cannot parse {path}: {e}");
                std::process::exit(2)
            }),
            Err(_) => KnownFindings::default(),
        }
    }
    /// id of the open finding that covers this violation, if any
    pub fn classify(&self, v: &Violation, feats: &BTreeMap<String, String>) -> Option<String> {
        for k in &self.findings {
            if k.status != "open" || k.property != v.property {
                continue;
            }
            if !k.oracles.iter().any(|o| *o == v.oracle) {
                continue;
            }
            let ok = k.predicate.iter().all(|(f, vals)| {
                feats
                    .get(f)
                    .map(|x| vals.iter().any(|v| v == x))
                    .unwrap_or(false)
            });
            if ok {
                return Some(k.id.clone());
            }
        }
        None
    }
}

/// Machine-computed features of a scenario (used only by known-findings predicates).
pub fn features(sc: &Scenario) -> BTreeMap<String, String> {
    use crate::scenario::*;
    let mut m = BTreeMap::new();
    let b = |x: bool| if x { "true" } else { "false" }.to_string();
    m.insert("method".into(), sc.method.name().to_string());
    m.insert("entry".into(), format!("{:?}", sc.entry));
    m.insert("problem".into(), sc.prob.name().to_string());
    m.insert("has_t_eval".into(), b(sc.t_eval.is_some()));
    m.insert("dense".into(), b(sc.dense));
    m.insert("has_first_step".into(), b(sc.first_step.is_some()));
    m.insert("has_max_step".into(), b(sc.max_step.is_some()));
    m.insert("has_min_step".into(), b(sc.min_step.is_some()));
    m.insert("has_max_steps".into(), b(sc.max_steps.is_some()));
    m.insert("has_events".into(), b(!sc.events.is_empty()));
    m.insert(
        "has_terminal".into(),
        b(sc.events.iter().any(|e| e.terminal.is_some())),
    );
    m.insert("has_faults".into(), b(!sc.faults.is_empty()));
    m.insert("has_actions".into(), b(!sc.actions.is_empty()));
    m.insert("backward".into(), b(sc.xend < sc.x0));
    let span = sc.span();
    m.insert(
        "first_step_gt_span".into(),
        b(sc.first_step.map(|h| h.abs() > span).unwrap_or(false)),
    );
    m.insert(
        "first_step_wrong_sign".into(),
        b(sc.first_step.map(|h| h * sc.dir() < 0.0).unwrap_or(false)),
    );
    m.insert(
        "max_step_ge_span".into(),
        b(sc.max_step.map(|h| h >= span).unwrap_or(false)),
    );
    m.insert(
        "span_class".into(),
        if !span.is_finite() {
            "inf"
        } else if span < 1e-9 {
            "tiny"
        } else if span < 1e-3 {
            "small"
        } else {
            "normal"
        }
        .to_string(),
    );
    m.insert(
        "fault_nonfinite".into(),
        b(sc.faults.iter().any(|f| f.kind.non_finite())),
    );
    m.insert("jac".into(), format!("{:?}", sc.jac));
    m
}
