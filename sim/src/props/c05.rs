//! C05 — t_eval: exactly the requested times, with the interpolated values (accuracy clause
//! excluded). The t_eval bookkeeping is a state machine over the callback history; the early
//! stop (budget / terminal event / RHS fault) is the injected crash.

use crate::catalogue;
use crate::core::*;
use crate::gen::*;
use crate::rng::{mix, Rng};
use crate::run::*;
use crate::scenario::*;
use crate::util::*;
use ivp::prelude::Status;

pub struct C05;
const P: &str = "C05";
const CHUNK: u64 = 64;

fn lerp(a: f64, b: f64, th: f64) -> f64 {
    a + th * (b - a)
}

fn sort_dir(v: &mut Vec<f64>, dir: f64) {
    v.sort_by(|a, b| (a * dir).partial_cmp(&(b * dir)).unwrap());
}

fn clamp_span(v: &mut Vec<f64>, x0: f64, xend: f64) {
    let (lo, hi) = (x0.min(xend), x0.max(xend));
    for t in v.iter_mut() {
        *t = t.max(lo).min(hi);
    }
}

/// adversarial placement of requested times relative to the pilot grid
fn place_t_eval(rng: &mut Rng, grid: &[f64], x0: f64, xend: f64) -> Vec<f64> {
    let dir = if xend >= x0 { 1.0 } else { -1.0 };
    let mut te = Vec::new();
    let style = rng.int(0, 5);
    for (k, w) in grid.windows(2).enumerate() {
        let (a, b) = (w[0], w[1]);
        match style {
            0 => {
                // strictly inside, several per step
                for _ in 0..rng.int(0, 3) {
                    te.push(lerp(a, b, rng.uni(0.001, 0.999)));
                }
            }
            1 => {
                // on and around boundaries
                if rng.bool(0.5) {
                    let off = *rng.pick(&[0.0, 1e-13, -1e-13, 1e-12, -1e-12, 1e-11, -1e-11, 5e-13, -5e-13]);
                    te.push(b + off);
                }
            }
            2 => {
                // sparse: none in most steps
                if rng.bool(0.15) {
                    te.push(lerp(a, b, rng.uni(0.0, 1.0)));
                }
            }
            3 => {
                // duplicates
                if rng.bool(0.4) {
                    let t = lerp(a, b, rng.uni(0.0, 1.0));
                    te.push(t);
                    te.push(t);
                    if rng.bool(0.3) {
                        te.push(t);
                    }
                }
            }
            4 => {
                // mixture
                if rng.bool(0.5) {
                    te.push(lerp(a, b, rng.uni(0.0, 1.0)));
                }
                if rng.bool(0.2) {
                    te.push(b);
                }
                if rng.bool(0.1) {
                    te.push(b + rng.sign() * 1e-12 * rng.uni(0.1, 3.0));
                }
            }
            _ => {
                // many per step in a few steps
                if k % 5 == 0 {
                    for j in 0..rng.int(5, 40) {
                        te.push(lerp(a, b, (j as f64 + rng.f()) / 41.0));
                    }
                }
            }
        }
    }
    if rng.bool(0.4) {
        te.push(x0);
    }
    if rng.bool(0.4) {
        te.push(xend);
    }
    if rng.bool(0.1) {
        te.push(x0 + dir * 5e-13);
    }
    clamp_span(&mut te, x0, xend);
    sort_dir(&mut te, dir);
    te.truncate(400);
    te
}

fn catalogue_cases(tier: Tier) -> Vec<Scenario> {
    let mut out = Vec::new();
    let ks: &[usize] = match tier {
        Tier::Quick => &[1, 2],
        Tier::Thorough => &[1, 2, 3, 4, 5, 6, 7, 8],
    };
    for &k in ks {
        for m in ALL_METHODS {
            for backward in [false, true] {
                let mut sc = catalogue::k(k, m, backward);
                sc.entry = Entry::High;
                sc.dense = true;
                if m != Meth::RK4 {
                    sc.rtol = vec![sc.rtol[0].max(1e-6)];
                }
                let p = match pilot(&sc) {
                    Some(p) if p.success => p,
                    _ => continue,
                };
                let dir = sc.dir();
                let mut te = vec![sc.x0];
                for w in p.grid.windows(2) {
                    te.push(lerp(w[0], w[1], 0.5));
                    for off in [-1e-11, -1e-12, -1e-13, 0.0, 1e-13, 1e-12, 1e-11] {
                        te.push(w[1] + off);
                    }
                }
                te.push(sc.xend);
                clamp_span(&mut te, sc.x0, sc.xend);
                sort_dir(&mut te, dir);
                te.truncate(400);
                sc.t_eval = Some(te);
                out.push(sc.clone());
                // the same with every budget that stops in the first ten steps
                for n in 1..10usize {
                    let mut b = sc.clone();
                    b.max_steps = Some(n);
                    out.push(b);
                }
            }
        }
    }
    out
}

fn n_sampled_chunks(tier: Tier) -> u64 {
    match tier {
        Tier::Quick => 4_000,
        Tier::Thorough => 120_000,
    }
}

pub(crate) fn sampled(rng: &mut Rng) -> Scenario {
    let m = gen_method(rng);
    let (mut sc, p) = gen_admissible(rng, m, ProbClass::Smooth, Entry::High, 20_000, &mut |rng, sc| {
        if sc.method != Meth::RK4 && rng.bool(0.2) {
            sc.max_step = Some(sc.span() * rng.logu(0.02, 1.5));
        }
        if rng.bool(0.05) {
            // tiny spans
            let d = sc.dir() * rng.logu(1e-12, 1e-6);
            sc.xend = sc.x0 + d;
            if sc.method == Meth::RK4 {
                sc.first_step = None;
            }
        }
    });
    sc.dense = true;
    if rng.bool(0.04) {
        // an interval of a few (to a few thousand) ulps at a large abscissa: most methods fail
        // honestly there, RK4 with one step succeeds; the requested times are x0, xend and between
        let big = rng.sign() * rng.logu(1e3, 1e9);
        let d = sc.dir();
        sc.x0 = big;
        sc.xend = big + d * big.abs() * rng.logu(3e-16, 1e-12);
        sc.max_step = None;
        if m == Meth::RK4 {
            sc.first_step = Some(sc.xend - sc.x0);
        }
        let mut te = vec![sc.x0];
        if rng.bool(0.5) {
            te.push(sc.x0 + 0.5 * (sc.xend - sc.x0));
        }
        te.push(sc.xend);
        sc.t_eval = Some(te);
        return sc;
    }
    if rng.bool(0.02) {
        // the zero-length run (xend == x0, at any abscissa): x0 itself is the only time that can
        // be requested, once or repeatedly
        let x0 = match rng.int(0, 3) {
            0 => 0.0,
            1 => rng.sign() * rng.logu(1e-9, 1e9),
            2 => sc.x0,
            _ => -sc.x0,
        };
        sc.x0 = x0;
        sc.xend = x0;
        sc.max_step = None;
        sc.first_step = None;
        sc.t_eval = Some(if rng.bool(0.6) { vec![x0] } else { vec![x0, x0] });
        sc.dense = rng.bool(0.5);
        return sc;
    }
    sc.t_eval = Some(place_t_eval(rng, &p.grid, sc.x0, sc.xend));
    let nsteps = p.grid.len() - 1;
    // early stop, one kind per run (or none)
    match rng.int(0, 5) {
        0 | 1 => {}
        2 => {
            sc.max_steps = Some(rng.int(1, nsteps.max(1)));
        }
        3 | 4 => {
            // terminal event inside a step that (often) contains requested times
            let s = rng.int(0, nsteps - 1);
            let th = *rng.pick(&[1e-9, 0.2, 0.5, 0.8, 1.0 - 1e-9]);
            let c = lerp(p.grid[s], p.grid[s + 1], th);
            sc.events.push(EventSpec { kind: EvKind::Time { c }, scale: rng.sign() * rng.logu(0.1, 10.0), dir: Dir::All, terminal: Some(1) });
            if rng.bool(0.6) {
                let dir = sc.dir();
                let te = sc.t_eval.as_mut().unwrap();
                te.push(lerp(p.grid[s], c, rng.uni(0.1, 0.9)));
                te.push(lerp(c, p.grid[s + 1], rng.uni(0.1, 0.9)));
                if rng.bool(0.2) {
                    te.push(c);
                }
                sort_dir(te, dir);
            }
            if rng.bool(0.3) {
                let c2 = lerp(sc.x0, sc.xend, rng.uni(0.0, 1.0));
                sc.events.push(EventSpec { kind: EvKind::Time { c: c2 }, scale: 1.0, dir: Dir::All, terminal: None });
            }
        }
        _ => {
            // the RHS goes bad for good from a crossing on
            let n = rng.int(2, p.n_ode.max(2) as usize) as u64;
            sc.faults.push(FaultSpec { trigger: Trigger::From(n), kind: *rng.pick(&[FaultKind::NanAll, FaultKind::PosInf, FaultKind::NanOne]), comp: 0, mag: 1.0 });
        }
    }
    sc
}

impl Prop for C05 {
    fn id(&self) -> &'static str {
        P
    }
    fn level(&self) -> &'static str {
        "exploration"
    }
    fn rule(&self) -> String {
        "seeded swarm: requested times are placed relative to the accepted-step grid learned from a pilot run (strictly inside, on a boundary, boundary +-{1e-13,5e-13,1e-12,1e-11}, at x0, at xend, many per step, none, duplicates), all methods, both directions, tiny spans; each run is either complete or stopped early by one injected cause: step budget, terminal event placed inside a step that contains requested times, or a persistent non-finite RHS fault from a chosen crossing on. Plus a fixed catalogue (boundary sweeps, budgets 1..9). Every case is run twice (dense_output on/off). Non-trivial = at least 3 requested times and at least 2 accepted steps; distinct = distinct fingerprint.".into()
    }
    fn assumptions(&self) -> Vec<String> {
        vec![
            "the accuracy clause (agreement with the exact solution) is not decided here (pure numerics, see C01/C07 not-applicable)".into(),
            "stopping point S: xend on Success; the terminal event time on UserInterrupt; the end of the dense span (last accepted x) otherwise; a requested time within 1e-12 of S (4e-12 for a terminal event) may be present or absent".into(),
            "values are compared with Solution::sol of the same run within tau_I + 4e-12*F".into(),
        ]
    }
    fn n_items(&self, tier: Tier) -> u64 {
        1 + n_sampled_chunks(tier)
    }
    fn n_enumerated_items(&self, _tier: Tier) -> u64 {
        1
    }
    fn expand(&self, item: u64, tier: Tier, seed: u64) -> Vec<Scenario> {
        if item == 0 {
            return catalogue_cases(tier);
        }
        let chunk = item - 1;
        (0..CHUNK)
            .map(|j| {
                let mut rng = Rng::new(mix(seed, P, chunk * CHUNK + j));
                sampled(&mut rng)
            })
            .collect()
    }

    fn check(&self, sc: &Scenario, cov: &mut Cov) -> Vec<Violation> {
        let mut v = Vec::new();
        let te = match &sc.t_eval {
            Some(t) => t.clone(),
            None => return v,
        };
        let dir = sc.dir();
        let mut d1 = sc.clone();
        d1.dense = true;
        let r = run_high(&d1, false);
        cov.note_high(&r);
        let mut d0 = sc.clone();
        d0.dense = false;
        let r0 = run_high(&d0, false);
        cov.note_high(&r0);
        if r.verdict != Verdict::Returned || r0.verdict != Verdict::Returned {
            cov.blocked += 1;
            return v;
        }
        let s = r.sol.as_ref().unwrap();
        let s0 = r0.sol.as_ref().unwrap();
        if te.len() >= 3 && s.naccpt >= 2 {
            cov.nontrivial.insert(r.fp);
        }
        cov.bump(&format!("stop.{}", status_name(s.status)));
        // independence of dense_output
        if s.t.len() != s0.t.len()
            || !s.t.iter().zip(&s0.t).all(|(a, b)| a.to_bits() == b.to_bits())
            || !s.y.iter().zip(&s0.y).all(|(a, b)| bits_eq(a, b))
            || s.status != s0.status
        {
            v.push(viol(P, "dense_dependence", format!("reported t/y differ between dense_output=true ({} samples, {}) and false ({} samples, {})", s.t.len(), status_name(s.status), s0.t.len(), status_name(s0.status))));
        }
        // stopping point
        let (stop, window, extra): (f64, f64, Option<f64>) = match s.status {
            Status::Success => (sc.xend, 1.000001e-12 + 2.0 * EPS * sc.xend.abs(), None),
            Status::UserInterrupt => {
                // the event point is the final entry
                let tl = match s.t.last() {
                    Some(t) => *t,
                    None => {
                        v.push(viol(P, "terminal_point_missing", "UserInterrupt but no sample at all".into()));
                        return v;
                    }
                };
                let is_event = sc.events.iter().enumerate().any(|(j, e)| e.terminal.is_some() && s.t_events[j].last().map(|x| x.to_bits() == tl.to_bits()).unwrap_or(false));
                if !is_event {
                    // link broken (belongs to C10): do not judge this run
                    cov.blocked += 1;
                    return v;
                }
                (tl, 4e-12 + 8.0 * EPS * tl.abs(), Some(tl))
            }
            _ => match s.sol_span() {
                Some((_, b)) => (b, 1.000001e-12 + 2.0 * EPS * b.abs(), None),
                None => (sc.x0, 1.000001e-12 + 2.0 * EPS * sc.x0.abs(), None),
            },
        };
        // reference model
        let got: &[f64] = if extra.is_some() { &s.t[..s.t.len() - 1] } else { &s.t[..] };
        let mut pos = 0usize;
        let mut why = None;
        for (i, &tau) in te.iter().enumerate() {
            let d = (stop - tau) * dir;
            let same = pos < got.len() && got[pos].to_bits() == tau.to_bits();
            // the stopping point itself is known exactly (xend / last accepted abscissa / event
            // time): a requested time not beyond it is due; only times *beyond* it by at most the
            // handler's matching slack are optional. (A terminal event point replaces a requested
            // time that coincides with it.)
            if d > 0.0 || (d == 0.0 && extra.is_none()) {
                // not beyond the stopping point: must be reported
                if same {
                    pos += 1;
                } else {
                    why = Some(format!("requested time #{i} = {:e} (not beyond the stopping point {:e}) is missing; reported list has {:?} at that position", tau, stop, got.get(pos)));
                    break;
                }
            } else if d >= -window {
                if same {
                    pos += 1;
                }
            } else {
                break;
            }
        }
        if why.is_none() && pos != got.len() {
            why = Some(format!("reported time {:e} (index {pos}) was not requested at that position or lies beyond the stopping point {:e}", got[pos], stop));
        }
        if let Some(w) = why {
            v.push(viol(P, "times", format!("status {}: {w}", status_name(s.status))));
            return v;
        }
        if cov.samples.len() < 4 && s.status != Status::Success {
            cov.sample(serde_json::json!({"scenario": sc.summary(), "status": status_name(s.status), "requested": te.len(), "reported": s.t.len(), "stopping_point": stop}));
        }
        // accepted-step grid (from the twin without t_eval): the handler emits a requested time in
        // the first step whose end + 1e-12 reaches it, i.e. it may *extrapolate* a step by up to
        // 1e-12. When that distance is not small against the step itself (steps near 1e-12) the
        // extrapolated value is not the value of the containing step's interpolant; such samples are
        // excluded from the value clause (documented absolute slack), and counted.
        let mut grid: Vec<f64> = Vec::new();
        let mut grid_y: Vec<Vec<f64>> = Vec::new();
        {
            let mut g = d1.clone();
            g.t_eval = None;
            let gr = run_high(&g, false);
            cov.note_high(&gr);
            if let (Verdict::Returned, Some(gs)) = (&gr.verdict, &gr.sol) {
                if gs.naccpt == s.naccpt && gs.status == s.status {
                    grid = gs.t.clone();
                    grid_y = gs.y.clone();
                }
            }
        }
        let extrapolated = |tau: f64| -> bool {
            if grid.len() < 2 {
                return true;
            }
            // first accepted endpoint g_k (k >= 1) with tau <= g_k + 1e-12 in the direction
            for k in 1..grid.len() {
                if (grid[k] - tau) * dir >= -1.000001e-12 {
                    let d = (tau - grid[k]) * dir;
                    let hk = (grid[k] - grid[k - 1]).abs();
                    return d > 1e-3 * hk;
                }
            }
            false
        };
        // independent of the dense output: a requested time that IS an accepted step end (bitwise)
        // must carry the accepted state (the interpolant equals the state at both ends of its step)
        if sc.first_step.is_none() || sc.method == Meth::RK4 {
            let f = r.st.fmax;
            for (i, &tau) in s.t.iter().enumerate() {
                if let Some(k) = grid.iter().position(|g| g.to_bits() == tau.to_bits()) {
                    if k == 0 || !all_finite(&s.y[i]) || !all_finite(&grid_y[k]) {
                        continue;
                    }
                    if Some(tau) == extra || extrapolated(tau) {
                        continue;
                    }
                    cov.bump("values.endpoint_cross_checks");
                    let sn = norm_inf(&s.y[i]).max(norm_inf(&grid_y[k]));
                    let tol = tau_i(sc.method, sn.max(sc.span().min(1.0) * f), sc.xscale().max(tau.abs()), f, sc.min_atol()) + 4e-12 * f;
                    let d = max_abs_diff(&s.y[i], &grid_y[k]);
                    if d > tol {
                        v.push(viol(P, "value_at_step_end", format!("requested time {:e} is an accepted step end; reported value {:?} but the accepted state there is {:?} (diff {:e} > {:e})", tau, s.y[i], grid_y[k], d, tol)));
                        break;
                    }
                }
            }
        }
        // values: the interpolant of the same run
        if let Some((a, b)) = s.sol_span() {
            let (lo, hi) = (a.min(b), a.max(b));
            let f = r.st.fmax;
            let xs = sc.xscale();
            let mut worst = 0.0f64;
            for (i, &tau) in s.t.iter().enumerate() {
                if tau < lo || tau > hi {
                    continue;
                }
                if let Ok(yy) = s.sol(tau) {
                    if extrapolated(tau) {
                        cov.bump("values.slack_extrapolation_skipped");
                        continue;
                    }
                    if !all_finite(&yy) || !all_finite(&s.y[i]) {
                        cov.bump("values.nonfinite_pair_skipped");
                        continue;
                    }
                    let sn = norm_inf(&yy).max(norm_inf(&s.y[i]));
                    let tol = tau_i(sc.method, sn.max(sc.span().min(1.0) * f), xs.max(tau.abs()), f, sc.min_atol()) + 4e-12 * f;
                    let d = max_abs_diff(&yy, &s.y[i]);
                    worst = worst.max(d / tol.max(f64::MIN_POSITIVE));
                    if d > tol {
                        v.push(viol(P, "values", format!("sample at t={:e} is {:?} but the dense interpolant of the same run gives {:?} (diff {:e} > {:e})", tau, s.y[i], yy, d, tol)));
                        break;
                    }
                }
            }
            cov.maxi("max.values_diff_over_tol_x1000", (worst * 1000.0) as u64);
        }
        v
    }
}
