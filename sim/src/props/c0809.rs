//! C08 / C09 — event delivery. Roots are messages, accepted steps are polling ticks: the handler
//! must deliver each sign change exactly once, in order, to the right listener (C09), and every
//! delivered event must be genuine, direction-filtered, ordered and consistent (C08). The search is
//! mostly over root *timing* relative to the step grid; finite RHS glitches only diversify step
//! histories.

use crate::catalogue;
use crate::core::*;
use crate::gen::*;
use crate::rng::{mix, Rng};
use crate::run::*;
use crate::scenario::*;
use crate::util::*;

pub struct C08;
pub struct C09;
const CHUNK: u64 = 64;

fn lerp(a: f64, b: f64, th: f64) -> f64 {
    a + th * (b - a)
}

fn n_sampled_chunks(tier: Tier) -> u64 {
    match tier {
        Tier::Quick => 5_000,
        Tier::Thorough => 150_000,
    }
}

/// every step x theta grid for single-root time events on catalogue problems (C09's single-root clause)
fn catalogue_cases(tier: Tier) -> Vec<Scenario> {
    let mut out = Vec::new();
    let ks: &[usize] = match tier {
        Tier::Quick => &[2],
        Tier::Thorough => &[1, 2, 4, 5, 8],
    };
    for &k in ks {
        for m in ALL_METHODS {
            for backward in [false, true] {
                let mut sc = catalogue::k(k, m, backward);
                sc.entry = Entry::High;
                sc.dense = true;
                if m != Meth::RK4 {
                    sc.rtol = vec![sc.rtol[0].max(1e-5)];
                    if sc.atol[0] == 0.0 {
                        sc.atol = vec![1e-9];
                    }
                } else {
                    sc.first_step = None; // the property's mode: no first_step (RK4 then uses span/100)
                }
                let p = match pilot(&sc) {
                    Some(p) if p.success => p,
                    _ => continue,
                };
                for s in 0..p.grid.len() - 1 {
                    for th in [1e-9, 0.25, 0.5, 0.75, 1.0 - 1e-9] {
                        for (scale, dir) in [(1.0, Dir::All), (-3.0, Dir::Pos), (1e-6, Dir::All), (1e6, Dir::Neg), (1e-13, Dir::All)] {
                            let mut c = sc.clone();
                            c.events = vec![EventSpec { kind: EvKind::Time { c: lerp(p.grid[s], p.grid[s + 1], th) }, scale, dir, terminal: None }];
                            out.push(c);
                        }
                    }
                }
            }
        }
    }
    out
}

pub(crate) fn sampled(rng: &mut Rng, c08: bool) -> Scenario {
    let m = gen_method(rng);
    let (mut sc, p) = gen_admissible(rng, m, ProbClass::Smooth, Entry::High, 20_000, &mut |rng, sc| {
        if sc.method == Meth::RK4 {
            sc.first_step = None;
        } else if rng.bool(0.25) {
            sc.max_step = Some(sc.span() * rng.logu(0.02, 1.5));
        }
    });
    sc.dense = true;
    let n = sc.prob.dim();
    let nsteps = p.grid.len() - 1;
    // C08 also covers runs whose output is filtered by first_step (C09's observation mode excludes
    // them: such runs are blocked there). Roots are then biased to lie before x0 + first_step,
    // where the handler skips outputs.
    // (the base generator itself may have set a first_step: singular-by-construction starts)
    let with_first_step = sc.first_step.is_some() || (c08 && sc.method != Meth::RK4 && rng.bool(0.25));
    if with_first_step && sc.first_step.is_none() {
        sc.first_step = Some(sc.dir() * sc.span() * rng.logu(1e-3, 0.6));
    }
    if rng.bool(0.2) {
        // forced rejections diversify the step history
        for _ in 0..rng.int(1, 3) {
            let k = rng.int(2, p.n_ode.max(2) as usize) as u64;
            let mut f = make_fault(rng, Trigger::At(k), FaultKind::Glitch, n);
            f.mag = rng.sign() * rng.logu(10.0, 1e4);
            sc.faults.push(f);
        }
    }
    let nev = rng.int(1, 4);
    // several functions often share one step
    let shared_step = rng.int(0, nsteps - 1);
    for _ in 0..nev {
        let s = if rng.bool(0.5) { shared_step } else { rng.int(0, nsteps - 1) };
        let th = match rng.int(0, 6) {
            0 => 1e-9,
            1 => 1.0 - 1e-9,
            2 => 0.0,
            _ => rng.uni(0.01, 0.99),
        };
        let mut c = lerp(p.grid[s], p.grid[s + 1], th);
        if let (true, Some(h0)) = (with_first_step && rng.bool(0.6), sc.first_step) {
            c = sc.x0 + h0 * rng.uni(0.02, 0.98);
        }
        // (with first_step the accepted grid is not observable, so the single-root precondition of
        // the direction clause can only be guaranteed for functions with one root overall)
        let kind = match if with_first_step { 0 } else { rng.int(0, 6) } {
            0 | 1 | 2 => EvKind::Time { c },
            3 => {
                let i = rng.int(0, n - 1);
                EvKind::State { i, c: lerp(p.ys[s][i], p.ys[s + 1][i], rng.uni(0.1, 0.9)) }
            }
            4 => {
                // at most one root per accepted step: half period >= 1.5 x the longest pilot step
                // (which root of several a root finder returns is not specified by anyone)
                let hmax = p.grid.windows(2).fold(0.0f64, |m, w| m.max((w[1] - w[0]).abs()));
                let half_period = (sc.span() * rng.uni(0.03, 0.7)).max(1.5 * hmax);
                EvKind::Sin { w: std::f64::consts::PI / half_period, phi: c }
            }
            _ => {
                let s2 = rng.int(0, nsteps - 1);
                EvKind::Prod { c1: lerp(p.grid[s2], p.grid[s2 + 1], rng.uni(0.05, 0.95)), c2: c }
            }
        };
        let scale = match rng.int(0, 9) {
            0 | 1 => rng.sign(),
            2 | 3 | 4 => rng.sign() * rng.logu(1e-3, 1e3),
            // extreme but valid magnitudes (products of two values under/overflow)
            5 => rng.sign() * (10.0f64).powf(rng.uni(-220.0, 220.0)),
            _ => rng.sign() * rng.logu(1e-15, 1e15),
        };
        let dir = *rng.pick(&[Dir::All, Dir::All, Dir::Pos, Dir::Neg]);
        // C08 also looks at what is reported when a terminal event stops the run (C09's counting
        // rule is about complete, uninterrupted histories)
        let terminal = if c08 && rng.bool(0.12) { Some(rng.int(1, 2)) } else { None };
        sc.events.push(EventSpec { kind, scale, dir, terminal });
    }
    sc
}

fn sign_change(dir: Dir, a: f64, b: f64) -> bool {
    match dir {
        Dir::All => (a < 0.0 && b > 0.0) || (a > 0.0 && b < 0.0),
        Dir::Pos => a < 0.0 && b > 0.0,
        Dir::Neg => a > 0.0 && b < 0.0,
    }
}

struct Ctx {
    r: HighOut,
}

fn prepare(sc: &Scenario, cov: &mut Cov) -> Option<Ctx> {
    let r = run_high(sc, false);
    cov.note_high(&r);
    if r.verdict != Verdict::Returned {
        cov.blocked += 1;
        return None;
    }
    // an unstable fixed-step run (RK4 has no error control) or an overflowing one says nothing
    // about event handling
    if let Some(s) = &r.sol {
        if s.y.iter().any(|y| y.iter().any(|v| !v.is_finite() || v.abs() > 1e50)) || r.st.fmax > 1e50 {
            cov.blocked += 1;
            cov.bump("blocked.overflowing_run");
            return None;
        }
    }
    Some(Ctx { r })
}

fn in_closed(t: f64, a: f64, b: f64) -> bool {
    t >= a.min(b) && t <= a.max(b)
}

impl Prop for C09 {
    fn id(&self) -> &'static str {
        "C09"
    }
    fn level(&self) -> &'static str {
        "exploration"
    }
    fn rule(&self) -> String {
        "catalogue: a single-root event s*(t-c) with the root placed in EVERY accepted step at fractions {1e-9, .25, .5, .75, 1-1e-9}, five scale/direction combinations (scales 1e-13..1e6), all methods, both directions; sampled: swarm with 1-4 event functions (time, state threshold, periodic, product of two roots), roots at pilot-chosen steps (mid-step, 1e-9 from a boundary, exactly on a boundary), several functions firing in one step, scales 1e-15..1e15, all direction filters, optional RHS glitches forcing rejections. Mode of the property: no t_eval, no first_step (reported samples are the accepted endpoints). Non-trivial = at least one strict sign change between consecutive endpoints; distinct = distinct run fingerprint.".into()
    }
    fn assumptions(&self) -> Vec<String> {
        vec![
            "the simulator recomputes g at the reported accepted endpoints (event functions are pure), so the sign pattern is the one the handler saw".into(),
            "a step with an exactly-zero endpoint value carries no obligation (the property exempts it)".into(),
            "precondition: naccpt == len(t)-1 (otherwise the samples are not the accepted endpoints and the run is blocked for this check)".into(),
        ]
    }
    fn n_items(&self, tier: Tier) -> u64 {
        1 + n_sampled_chunks(tier)
    }
    fn n_enumerated_items(&self, _tier: Tier) -> u64 {
        1
    }
    fn expand(&self, item: u64, tier: Tier, seed: u64) -> Vec<Scenario> {
        if item == 0 {
            return catalogue_cases(tier);
        }
        (0..CHUNK)
            .map(|j| {
                let mut rng = Rng::new(mix(seed, "C09", (item - 1) * CHUNK + j));
                sampled(&mut rng, false)
            })
            .collect()
    }
    fn check(&self, sc: &Scenario, cov: &mut Cov) -> Vec<Violation> {
        const P: &str = "C09";
        let mut v = Vec::new();
        let ctx = match prepare(sc, cov) {
            Some(c) => c,
            None => return v,
        };
        let s = ctx.r.sol.as_ref().unwrap();
        if sc.t_eval.is_some() || sc.first_step.is_some() || s.naccpt + 1 != s.t.len() {
            cov.blocked += 1;
            return v;
        }
        let mut any_change = false;
        for (j, e) in sc.events.iter().enumerate() {
            let g: Vec<f64> = (0..s.t.len()).map(|k| e.eval(s.t[k], &s.y[k])).collect();
            let evs = &s.t_events[j];
            let mut a_steps = Vec::new(); // strict change
            let mut z_steps = Vec::new(); // an exactly-zero endpoint
            for k in 0..s.t.len() - 1 {
                if g[k] == 0.0 || g[k + 1] == 0.0 {
                    z_steps.push(k);
                } else if sign_change(e.dir, g[k], g[k + 1]) {
                    a_steps.push(k);
                }
            }
            if !a_steps.is_empty() {
                any_change = true;
            }
            cov.add("strict_sign_changes", a_steps.len() as u64);
            cov.add("exempt_zero_endpoint_steps", z_steps.len() as u64);
            // every strict-change step holds exactly one event (closed interval)
            for &k in &a_steps {
                let cnt = evs.iter().filter(|&&t| in_closed(t, s.t[k], s.t[k + 1])).count();
                // an event sitting exactly on a shared endpoint is counted for both neighbours; only
                // "none at all" or "more than can be explained" are violations
                if cnt == 0 {
                    v.push(viol(P, "lost", format!("function {j} ({:?}, scale {:e}, {:?}) changes sign between accepted steps t={:e} (g={:e}) and t={:e} (g={:e}) but no event is reported in that step; events: {:?}", e.kind, e.scale, e.dir, s.t[k], g[k], s.t[k + 1], g[k + 1], evs)));
                    break;
                }
            }
            if evs.len() < a_steps.len() {
                v.push(viol(P, "lost", format!("function {j}: {} strict sign changes but only {} events", a_steps.len(), evs.len())));
            }
            if evs.len() > a_steps.len() + z_steps.len() {
                v.push(viol(P, "duplicated", format!("function {j} ({:?}, scale {:e}, {:?}): {} events reported but only {} strict sign changes (+{} steps with an exactly-zero endpoint): {:?}", e.kind, e.scale, e.dir, evs.len(), a_steps.len(), z_steps.len(), evs)));
            }
            // every event lies in a strict-change or exempt step
            for &t in evs {
                let ok = a_steps.iter().chain(z_steps.iter()).any(|&k| in_closed(t, s.t[k], s.t[k + 1]));
                if !ok {
                    v.push(viol(P, "spurious", format!("function {j} ({:?}, scale {:e}, {:?}): event at t={:e} lies in no step with a sign change in the configured direction", e.kind, e.scale, e.dir, t)));
                    break;
                }
            }
            // single known root t - c
            if let EvKind::Time { c } = e.kind {
                let strictly_inside = (c - sc.x0) * sc.dir() > 0.0 && (sc.xend - c) * sc.dir() > 0.0;
                let on_endpoint = s.t.iter().any(|t| t.to_bits() == c.to_bits());
                let crossing_dir_ok = match e.dir {
                    Dir::All => true,
                    Dir::Pos => e.scale * sc.dir() > 0.0,
                    Dir::Neg => e.scale * sc.dir() < 0.0,
                };
                let covered = (s.t.last().copied().unwrap_or(sc.x0) - c) * sc.dir() > 0.0;
                // (an event function that is exactly zero at an accepted endpoint - e.g. because
                // scale*(t-c) underflows next to the root - is in the zone the property exempts)
                if strictly_inside && !on_endpoint && crossing_dir_ok && covered && z_steps.is_empty() {
                    cov.bump("single_root_cases");
                    if evs.len() != 1 {
                        v.push(viol(P, "single_root_count", format!("g = {:e}*(t - {:e}) has one root strictly inside the span, not on a step endpoint, but {} events are reported: {:?}", e.scale, c, evs.len(), evs)));
                    } else if (evs[0] - c).abs() > 4e-12 + 8.0 * EPS * c.abs() {
                        v.push(viol(P, "single_root_location", format!("g = {:e}*(t - {:e}): event reported at {:e}, {:e} away from the root (root-finder tolerance 4e-12)", e.scale, c, evs[0], (evs[0] - c).abs())));
                    }
                }
            }
        }
        if any_change {
            cov.nontrivial.insert(ctx.r.fp);
            if cov.samples.len() < 4 {
                cov.sample(serde_json::json!({"scenario": sc.summary(), "accepted_steps": s.naccpt, "events": s.t_events}));
            }
        }
        v
    }
}

impl Prop for C08 {
    fn id(&self) -> &'static str {
        "C08"
    }
    fn level(&self) -> &'static str {
        "exploration"
    }
    fn rule(&self) -> String {
        "sampled: swarm with 1-4 event functions (time, state threshold, periodic, product of two roots), roots at pilot-chosen steps (mid-step, 1e-9 from a boundary, exactly on a boundary), several functions firing in one step, scales 1e-15..1e15, all three direction filters, both integration directions, all methods, optional RHS glitches forcing rejections; plus the catalogue of single-root placements in every step. Every reported event is checked. Non-trivial = at least one event was reported; distinct = distinct run fingerprint.".into()
    }
    fn assumptions(&self) -> Vec<String> {
        vec![
            "'zero to root-finder accuracy' is read slope-independently: g evaluated on the dense solution changes sign (non-strictly, in the configured direction and in the order of integration) across [t_e - d, t_e + d], d = 4e-12 + 8*eps*|t_e|".into(),
            "y_e is compared with Solution::sol(t_e) within tau_I + 4e-12*F".into(),
            "dense_output is on and t_eval/first_step off, so that the reported samples are the accepted endpoints".into(),
        ]
    }
    fn n_items(&self, tier: Tier) -> u64 {
        1 + n_sampled_chunks(tier)
    }
    fn n_enumerated_items(&self, _tier: Tier) -> u64 {
        1
    }
    fn expand(&self, item: u64, tier: Tier, seed: u64) -> Vec<Scenario> {
        if item == 0 {
            return catalogue_cases(tier);
        }
        (0..CHUNK)
            .map(|j| {
                let mut rng = Rng::new(mix(seed, "C08", (item - 1) * CHUNK + j));
                sampled(&mut rng, true)
            })
            .collect()
    }
    fn check(&self, sc: &Scenario, cov: &mut Cov) -> Vec<Violation> {
        const P: &str = "C08";
        let mut v = Vec::new();
        let ctx = match prepare(sc, cov) {
            Some(c) => c,
            None => return v,
        };
        let s = ctx.r.sol.as_ref().unwrap();
        let dir = sc.dir();
        let n = sc.prob.dim();
        if s.t_events.len() != sc.events.len() || s.y_events.len() != sc.events.len() {
            v.push(viol(P, "shape", "t_events / y_events do not have one list per event function".into()));
            return v;
        }
        let total: usize = s.t_events.iter().map(|e| e.len()).sum();
        if total > 0 {
            cov.nontrivial.insert(ctx.r.fp);
        }
        cov.add("events_checked", total as u64);
        let endpoints_known = sc.t_eval.is_none() && sc.first_step.is_none() && s.naccpt + 1 == s.t.len();
        let span = s.sol_span();
        let f = ctx.r.st.fmax;
        for (j, e) in sc.events.iter().enumerate() {
            let te = &s.t_events[j];
            let ye = &s.y_events[j];
            if te.len() != ye.len() {
                v.push(viol(P, "shape", format!("function {j}: {} event times but {} event states", te.len(), ye.len())));
                continue;
            }
            if let Some(y) = ye.iter().find(|y| y.len() != n) {
                v.push(viol(P, "shape", format!("function {j}: an event state has dimension {} != {n}", y.len())));
            }
            // order of encounter
            if let Some(i) = (1..te.len()).find(|&i| (te[i] - te[i - 1]) * dir < 0.0) {
                v.push(viol(P, "order", format!("function {j}: events are not listed in the order of integration: {:e} then {:e}", te[i - 1], te[i])));
            }
            for (i, &t) in te.iter().enumerate() {
                // bracketed by the endpoints of some accepted step
                if endpoints_known {
                    let ok = (0..s.t.len() - 1).any(|k| in_closed(t, s.t[k], s.t[k + 1]));
                    if !ok {
                        v.push(viol(P, "not_bracketed", format!("function {j}: event at t={:e} lies between no two consecutive accepted steps (span {:e}..{:e})", t, s.t[0], s.t[s.t.len() - 1])));
                        break;
                    }
                }
                let (a, b) = match span {
                    Some(x) => x,
                    None => break,
                };
                let (lo, hi) = (a.min(b), a.max(b));
                if t < lo || t > hi {
                    v.push(viol(P, "not_bracketed", format!("function {j}: event at t={:e} lies outside the covered span ({:e}, {:e})", t, a, b)));
                    break;
                }
                // y_e equals the continuous solution at t_e
                if let Ok(yy) = s.sol(t) {
                    if all_finite(&yy) && all_finite(&ye[i]) {
                        let sn = norm_inf(&yy).max(norm_inf(&ye[i]));
                        let tol = tau_i(sc.method, sn.max(sc.span().min(1.0) * f), sc.xscale().max(t.abs()), f, sc.min_atol()) + 4e-12 * f;
                        let d = max_abs_diff(&yy, &ye[i]);
                        if d > tol {
                            v.push(viol(P, "state_mismatch", format!("function {j}: event state {:?} at t={:e} differs from sol(t)={:?} by {:e} > {:e}", ye[i], t, yy, d, tol)));
                            break;
                        }
                    }
                }
                // the direction clause presupposes a single root in the step (with several, which one
                // a root finder returns is unspecified): sample g on the bracketing step and skip
                // the clause when more than one sign change is visible
                // (two reported events of this function closer than root-finder accuracy: the event
                // function has several roots inside one accuracy window - rounding-level wobble of
                // a state around its threshold - and the precondition fails whatever the step grid)
                {
                    let dw = 4e-12 + 8.0 * EPS * t.abs();
                    // (the same time twice is one root seen from both adjacent steps, not two roots; 2.5
                    // windows because each reported time is itself only accurate to one window and the
                    // sign test below looks one window to either side)
                    if te.iter().any(|&t2| t2.to_bits() != t.to_bits() && (t2 - t).abs() <= 2.5 * dw) {
                        cov.bump("multi_root_window_direction_clause_skipped");
                        continue;
                    }
                }
                if !endpoints_known && !matches!(e.kind, EvKind::Time { .. }) {
                    // the accepted grid is not observable (first_step filtering, or a terminal stop
                    // whose event point merged with a step end): only a function with a single
                    // root overall keeps the precondition
                    cov.bump("direction_clause_skipped_grid_unknown");
                    continue;
                }
                if endpoints_known {
                    if let Some(k) = (0..s.t.len() - 1).find(|&k| in_closed(t, s.t[k], s.t[k + 1])) {
                        // (the window of root-finder accuracy around the event counts as well: two
                        // roots closer than that cannot be told apart by anyone)
                        let dw = 4e-12 + 8.0 * EPS * t.abs();
                        let (ta_, tb_) = (s.t[k].min(s.t[k + 1]).min(t - dw), s.t[k].max(s.t[k + 1]).max(t + dw));
                        // known root sets of the simulator's own event functions
                        let analytic_roots = match e.kind {
                            EvKind::Prod { c1, c2 } => [c1, c2].iter().filter(|c| **c >= ta_ && **c <= tb_).count(),
                            EvKind::Sin { w, phi } => {
                                let per = std::f64::consts::PI / w.abs();
                                let k0 = ((ta_ - phi) / per).ceil();
                                let k1 = ((tb_ - phi) / per).floor();
                                if k1 >= k0 { (k1 - k0) as usize + 1 } else { 0 }
                            }
                            _ => 0,
                        };
                        if analytic_roots > 1 {
                            cov.bump("multi_root_step_direction_clause_skipped");
                            continue;
                        }
                        let mut changes = 0;
                        let mut prev: Option<f64> = None;
                        for q in 0..=32 {
                            let tq = lerp(s.t[k], s.t[k + 1], q as f64 / 32.0).max(lo).min(hi);
                            if let Ok(yq) = s.sol(tq) {
                                let gq = e.eval(tq, &yq);
                                if let Some(pv) = prev {
                                    if (pv < 0.0 && gq > 0.0) || (pv > 0.0 && gq < 0.0) {
                                        changes += 1;
                                    }
                                }
                                if gq != 0.0 {
                                    prev = Some(gq);
                                }
                            }
                        }
                        if changes > 1 {
                            cov.bump("multi_root_step_direction_clause_skipped");
                            continue;
                        }
                    }
                }
                // genuine: g changes sign in the configured direction across [t-d, t+d]
                let d = 4e-12 + 8.0 * EPS * t.abs();
                let tb = (t - dir * d).max(lo).min(hi);
                let ta = (t + dir * d).max(lo).min(hi);
                if let (Ok(yb), Ok(ya)) = (s.sol(tb), s.sol(ta)) {
                    if !all_finite(&yb) || !all_finite(&ya) {
                        continue;
                    }
                    let gb = e.eval(tb, &yb);
                    let ga = e.eval(ta, &ya);
                    // values below the rounding noise of g itself count as zero: for a state
                    // threshold the noise of the dense state (tau_I), for functions of t the
                    // rounding of t
                    let sn = norm_inf(&yb).max(norm_inf(&ya));
                    let ty = tau_i(sc.method, sn.max(sc.span().min(1.0) * f), sc.xscale().max(t.abs()), f, sc.min_atol());
                    let tt = 8.0 * EPS * sc.xscale().max(t.abs());
                    let noise = e.scale.abs()
                        * match e.kind {
                            EvKind::State { .. } => ty,
                            EvKind::Time { .. } => tt,
                            EvKind::Sin { w, .. } => w.abs() * tt + 4.0 * EPS,
                            EvKind::Prod { c1, c2 } => ((t - c1).abs() + (t - c2).abs() + d) * tt,
                            EvKind::Const => 0.0,
                        };
                    let ok = match e.dir {
                        Dir::All => (gb <= noise && ga >= -noise) || (gb >= -noise && ga <= noise),
                        Dir::Pos => gb <= noise && ga >= -noise,
                        Dir::Neg => gb >= -noise && ga <= noise,
                    };
                    // (a touching zero: the event sits bitwise on an accepted endpoint at which the
                    // event function is exactly 0 - the zone in which, as in SciPy, the handler may
                    // report from either adjacent step although g has the same sign on both sides)
                    let touch = !ok
                        && endpoints_known
                        && (0..s.t.len()).any(|k| s.t[k].to_bits() == t.to_bits() && e.eval(s.t[k], &s.y[k]) == 0.0);
                    if touch {
                        cov.bump("touching_zero_at_endpoint_accepted");
                        continue;
                    }
                    if !ok {
                        v.push(viol(
                            P,
                            "not_a_root",
                            format!("function {j} ({:?}, scale {:e}, {:?}): at the reported event t={:e} the event function does not change sign in the configured direction within root-finder accuracy: g({:e})={:e}, g({:e})={:e}", e.kind, e.scale, e.dir, t, tb, gb, ta, ga),
                        ));
                        break;
                    }
                }
            }
        }
        if cov.samples.len() < 4 && total > 0 {
            cov.sample(serde_json::json!({"scenario": sc.summary(), "events": s.t_events}));
        }
        v
    }
}
