//! C10 — a terminal event stops the run at the event. The terminal event is a cancellation at a
//! scheduler-chosen instant; the oracle is the bit-identical prefix of the un-cancelled twin.

use crate::catalogue;
use crate::core::*;
use crate::gen::*;
use crate::rng::{mix, Rng};
use crate::run::*;
use crate::scenario::*;
use crate::util::*;
use ivp::prelude::Status;

pub struct C10;
const P: &str = "C10";
const CHUNK: u64 = 64;

const THETAS: [f64; 7] = [1e-9, 0.1, 0.3, 0.5, 0.7, 0.9, 1.0 - 1e-9];

#[derive(Clone)]
struct Base {
    k: usize,
    m: Meth,
    backward: bool,
    /// 0: plain; 1: with t_eval; 2: with dense; 3: with t_eval and dense
    opts: u8,
}

fn bases(tier: Tier) -> Vec<Base> {
    let mut v = Vec::new();
    let ks: &[usize] = match tier {
        Tier::Quick => &[2],
        Tier::Thorough => &[2, 4, 8, 5],
    };
    for &k in ks {
        for m in ALL_METHODS {
            for backward in [false, true] {
                for opts in 0..4u8 {
                    if tier == Tier::Quick && (backward && opts != 0) {
                        continue;
                    }
                    v.push(Base { k, m, backward, opts });
                }
            }
        }
    }
    v
}

fn n_sampled_chunks(tier: Tier) -> u64 {
    match tier {
        Tier::Quick => 3_000,
        Tier::Thorough => 120_000,
    }
}

fn lerp(a: f64, b: f64, th: f64) -> f64 {
    a + th * (b - a)
}

fn t_eval_for(rng: Option<&mut Rng>, grid: &[f64], per_step: usize) -> Vec<f64> {
    // requested times strictly inside steps, `per_step` per step, in integration order
    let mut te = Vec::new();
    let mut fr: Vec<f64> = (1..=per_step).map(|i| i as f64 / (per_step as f64 + 1.0)).collect();
    if let Some(r) = rng {
        for f in fr.iter_mut() {
            *f = r.uni(0.02, 0.98);
        }
        fr.sort_by(|a, b| a.partial_cmp(b).unwrap());
    }
    for w in grid.windows(2) {
        for f in &fr {
            te.push(lerp(w[0], w[1], *f));
        }
    }
    te
}

fn expand_base(b: &Base) -> Vec<Scenario> {
    let mut sc = catalogue::k(b.k, b.m, b.backward);
    sc.entry = Entry::High;
    if b.m != Meth::RK4 {
        // keep the enumerated runs short
        sc.rtol = vec![sc.rtol[0].max(1e-5)];
        if sc.atol[0] == 0.0 {
            sc.atol = vec![1e-9];
        }
    }
    let p = match pilot(&sc) {
        Some(p) if p.success => p,
        _ => return vec![],
    };
    sc.dense = b.opts & 2 != 0;
    if b.opts & 1 != 0 {
        sc.t_eval = Some(t_eval_for(None, &p.grid, 2));
    }
    let mut out = Vec::new();
    let nsteps = p.grid.len() - 1;
    for s in 0..nsteps {
        let (a, bb) = (p.grid[s], p.grid[s + 1]);
        for th in THETAS {
            let c = lerp(a, bb, th);
            // count = 1: g = t - c terminal, with an earlier and a later non-terminal root in the same step
            let mut s1 = sc.clone();
            s1.events = vec![
                EventSpec { kind: EvKind::Time { c: lerp(a, bb, th + (1.0 - th) * 0.5) }, scale: 1.0, dir: Dir::All, terminal: None },
                EventSpec { kind: EvKind::Time { c }, scale: 1.0, dir: Dir::All, terminal: Some(1) },
                EventSpec { kind: EvKind::Time { c: lerp(a, bb, th * 0.5) }, scale: -1.0, dir: Dir::All, terminal: None },
            ];
            out.push(s1);
            // count = 2: g = (t - c1)(t - c), c1 in an earlier step; second occurrence is terminal
            if s >= 1 {
                let c1 = lerp(p.grid[s - 1], p.grid[s], 0.5);
                let mut s2 = sc.clone();
                s2.events = vec![EventSpec { kind: EvKind::Prod { c1, c2: c }, scale: 1.0, dir: Dir::All, terminal: Some(2) }];
                out.push(s2);
            }
        }
    }
    out
}

pub(crate) fn sampled(rng: &mut Rng) -> Scenario {
    let m = gen_method(rng);
    let (mut sc, p) = gen_admissible(rng, m, ProbClass::Smooth, Entry::High, 20_000, &mut |rng, sc| {
        if sc.method != Meth::RK4 && rng.bool(0.2) {
            sc.max_step = Some(sc.span() * rng.logu(0.02, 1.5));
        }
        if sc.method != Meth::RK4 && rng.bool(0.2) {
            // first_step filters the first outputs (no t_eval) - the stop must not lose them
            sc.first_step = Some(sc.dir() * sc.span() * rng.logu(1e-3, 0.6));
        }
    });
    let n = sc.prob.dim();
    let nsteps = p.grid.len() - 1;
    sc.dense = rng.bool(0.5);
    if rng.bool(0.45) {
        let per = rng.int(1, 3);
        let mut te = t_eval_for(Some(rng), &p.grid, per);
        // thin out randomly, sometimes put points on step boundaries
        te.retain(|_| rng.bool(0.7));
        if rng.bool(0.3) {
            te.push(*rng.pick(&p.grid));
            let dir = sc.dir();
            te.sort_by(|a, b| (a * dir).partial_cmp(&(b * dir)).unwrap());
        }
        sc.t_eval = Some(te);
    }
    let nev = rng.int(1, 4);
    let term_idx = rng.int(0, nev - 1);
    for j in 0..nev {
        let s = rng.int(0, nsteps - 1);
        let th = match rng.int(0, 5) {
            0 => 1e-9,
            1 => 1.0 - 1e-9,
            2 => 0.0, // exactly on a step boundary (tie zone)
            _ => rng.uni(0.01, 0.99),
        };
        let c = lerp(p.grid[s], p.grid[s + 1], th);
        let kind = match rng.int(0, 5) {
            0 | 1 => EvKind::Time { c },
            2 => {
                // state threshold taken from the pilot inside step s
                let i = rng.int(0, n - 1);
                let yc = lerp(p.ys[s][i], p.ys[s + 1][i], rng.uni(0.1, 0.9));
                EvKind::State { i, c: yc }
            }
            3 => EvKind::Sin { w: std::f64::consts::PI / (sc.span() * rng.uni(0.08, 0.6)), phi: c },
            _ => {
                let s2 = rng.int(0, nsteps - 1);
                EvKind::Prod { c1: lerp(p.grid[s2], p.grid[s2 + 1], rng.uni(0.05, 0.95)), c2: c }
            }
        };
        let terminal = if j == term_idx {
            Some(match rng.int(0, 5) {
                0..=2 => 1,
                3 | 4 => 2,
                _ => 3,
            })
        } else if rng.bool(0.25) {
            Some(rng.int(1, 2))
        } else {
            None
        };
        let dir = *rng.pick(&[Dir::All, Dir::All, Dir::Pos, Dir::Neg]);
        let scale = if rng.bool(0.3) { rng.sign() * rng.logu(1e-3, 1e3) } else { rng.sign() };
        sc.events.push(EventSpec { kind, scale, dir, terminal });
    }
    sc
}

fn before(dir: f64, a: f64, b: f64) -> bool {
    (b - a) * dir > 0.0
}

impl Prop for C10 {
    fn id(&self) -> &'static str {
        P
    }
    fn level(&self) -> &'static str {
        "fault_enumeration"
    }
    fn rule(&self) -> String {
        "enumerated: for every catalogue base (problem K x method x direction x {plain, t_eval, dense, both}) the terminal root is placed in EVERY accepted step at 7 fractions theta in {1e-9,0.1,0.3,0.5,0.7,0.9,1-1e-9}, once as occurrence 1 (with an earlier and a later non-terminal root in the same step) and once as occurrence 2; sampled: swarm with 1-4 event functions (time, state, periodic, product), all direction filters, scales, terminal counts 1-3, roots at pilot-chosen steps incl. exactly on boundaries. Each case runs the terminal run T and its twin N (terminal flags off). Non-trivial = the terminal count was reached in N (the cancellation fired); distinct = distinct fingerprint of T.".into()
    }
    fn assumptions(&self) -> Vec<String> {
        vec![
            "the twin N (same run, terminal flags cleared) defines 'what the same run reports without the terminal flag'".into(),
            "a sample or event whose time equals the terminal event time bitwise may be reported or not (tie left open by the property)".into(),
            "event functions are pure functions of (t, y) supplied by the simulator".into(),
        ]
    }
    fn n_items(&self, tier: Tier) -> u64 {
        bases(tier).len() as u64 + n_sampled_chunks(tier)
    }
    fn exhaustive(&self, _tier: Tier) -> bool {
        true
    }
    fn n_enumerated_items(&self, tier: Tier) -> u64 {
        bases(tier).len() as u64
    }
    fn expand(&self, item: u64, tier: Tier, seed: u64) -> Vec<Scenario> {
        let bs = bases(tier);
        if (item as usize) < bs.len() {
            return expand_base(&bs[item as usize]);
        }
        let chunk = item - bs.len() as u64;
        (0..CHUNK)
            .map(|j| {
                let mut rng = Rng::new(mix(seed, P, chunk * CHUNK + j));
                sampled(&mut rng)
            })
            .collect()
    }

    fn check(&self, sc: &Scenario, cov: &mut Cov) -> Vec<Violation> {
        let mut v = Vec::new();
        let dir = sc.dir();
        let t = run_high(sc, false);
        cov.note_high(&t);
        let mut nsc = sc.clone();
        for e in nsc.events.iter_mut() {
            e.terminal = None;
        }
        let nrun = run_high(&nsc, false);
        cov.note_high(&nrun);
        if t.verdict != Verdict::Returned || nrun.verdict != Verdict::Returned {
            cov.blocked += 1;
            return v;
        }
        let ts = t.sol.as_ref().unwrap();
        let ns = nrun.sol.as_ref().unwrap();
        // the cancellation instant according to the twin
        let mut star: Option<(f64, usize, usize)> = None; // (time, function, index in N's list)
        for (j, e) in sc.events.iter().enumerate() {
            if let Some(cnt) = e.terminal {
                if cnt >= 1 && ns.t_events[j].len() >= cnt {
                    let tt = ns.t_events[j][cnt - 1];
                    if star.map(|(s, _, _)| before(dir, tt, s)).unwrap_or(true) {
                        star = Some((tt, j, cnt - 1));
                    }
                }
            }
        }
        match star {
            None => {
                cov.bump("terminal.not_reached");
                if ts.status == Status::UserInterrupt {
                    v.push(viol(P, "spurious_stop", "status UserInterrupt although no terminal function reaches its occurrence count in the twin run".into()));
                } else if t.fp != nrun.fp {
                    v.push(viol(P, "twin_differs", "no terminal function reaches its count, yet the run differs from the twin without terminal flags".into()));
                }
            }
            Some((tstar, f, idx)) => {
                cov.nontrivial.insert(t.fp);
                cov.bump("terminal.reached");
                if cov.samples.len() < 4 {
                    cov.sample(serde_json::json!({"scenario": sc.summary(), "t_star": tstar, "samples_T": ts.t.len(), "samples_N": ns.t.len()}));
                }
                if ts.status != Status::UserInterrupt {
                    v.push(viol(P, "no_stop", format!("terminal function {f} reaches its count at t*={:e} in the twin, but status is {}", tstar, status_name(ts.status))));
                    return v;
                }
                // several terminal functions may reach their count at the same time bitwise
                // (identical functions, or a root on a step boundary): any of them may be the one
                // that stopped the run
                let cands: Vec<(usize, usize)> = sc
                    .events
                    .iter()
                    .enumerate()
                    .filter_map(|(j, e)| match e.terminal {
                        Some(cnt) if cnt >= 1 && ns.t_events[j].len() >= cnt && ns.t_events[j][cnt - 1].to_bits() == tstar.to_bits() => Some((j, cnt - 1)),
                        _ => None,
                    })
                    .collect();
                if cands.len() > 1 {
                    cov.bump("terminal.tie_between_functions");
                }
                // final sample is the event point
                // when a requested output time coincides with t* bitwise the handler keeps that
                // sample as the event point (its state is the interpolant at the same time, equal
                // to the event state up to rounding)
                let te_tie = sc.t_eval.as_ref().map(|te| te.iter().any(|x| x.to_bits() == tstar.to_bits())).unwrap_or(false);
                let last_ok = match (ts.t.last(), ts.y.last()) {
                    (Some(tl), Some(yl)) => {
                        tl.to_bits() == tstar.to_bits()
                            && (cands.iter().any(|(j, i)| {
                                let ye = &ns.y_events[*j][*i];
                                bits_eq(yl, ye) || (te_tie && max_abs_diff(yl, ye) <= 1e-9 * (1.0 + norm_inf(ye)))
                            })
                                // the event time coincides bitwise with a sample of the twin: that
                                // sample already is the event point (states agree to rounding)
                                || (0..ns.t.len()).any(|i| ns.t[i].to_bits() == tstar.to_bits() && bits_eq(yl, &ns.y[i])))
                    }
                    _ => false,
                };
                if !last_ok {
                    v.push(viol(P, "last_sample", format!("final sample is ({:?}, {:?}) but the terminal event point is ({:e}, {:?})", ts.t.last(), ts.y.last(), tstar, &ns.y_events[f][idx])));
                }
                // earlier samples: N's samples well before t*; those within root-finder accuracy of
                // t* (on either side) may be present or absent
                let de = 4e-12 + 8.0 * EPS * tstar.abs();
                let well_before = |x: f64| (tstar - x) * dir > de;
                let near = |x: f64| (tstar - x).abs() <= de;
                let got = ts.t.len().saturating_sub(1);
                let mut pos = 0usize;
                let mut why: Option<String> = None;
                for i in 0..ns.t.len() {
                    let same = pos < got && ts.t[pos].to_bits() == ns.t[i].to_bits() && bits_eq(&ts.y[pos], &ns.y[i]);
                    if well_before(ns.t[i]) {
                        if same {
                            pos += 1;
                        } else {
                            why = Some(format!("twin sample at {:e} (before t*) is missing or different in T (position {pos} of {got})", ns.t[i]));
                            break;
                        }
                    } else if near(ns.t[i]) {
                        if same {
                            pos += 1;
                        }
                    } else {
                        break;
                    }
                }
                if why.is_none() && pos != got {
                    why = Some(format!("T reports {} samples before the event point but only {} of them are samples of the twin before t*", got, pos));
                }
                if let Some(w) = why {
                    v.push(viol(P, "prefix_samples", format!("samples before the stop differ from the twin (t*={:e}): {w}", tstar)));
                }
                // nothing beyond t*
                if let Some(tb) = ts.t.iter().find(|&&x| (x - tstar) * dir > de) {
                    v.push(viol(P, "sample_beyond", format!("a sample at {:e} lies beyond the terminal event at {:e}", tb, tstar)));
                }
                // events: prefix of the twin's, earlier ones kept, later ones absent
                for j in 0..sc.events.len() {
                    let nb = ns.t_events[j].iter().filter(|&&x| well_before(x)).count();
                    let ne = ns.t_events[j].iter().filter(|&&x| near(x)).count();
                    let l = ts.t_events[j].len();
                    let (lo, hi) = if cands.len() == 1 && j == f { (idx + 1, idx + 1) } else { (nb, nb + ne) };
                    let prefix_ok = l <= ns.t_events[j].len()
                        && (0..l).all(|i| ts.t_events[j][i].to_bits() == ns.t_events[j][i].to_bits() && bits_eq(&ts.y_events[j][i], &ns.y_events[j][i]));
                    if !prefix_ok {
                        v.push(viol(P, "events_prefix", format!("events of function {j} are not a bitwise prefix of the twin's: {:?} vs {:?}", ts.t_events[j], ns.t_events[j])));
                    } else if l < lo {
                        v.push(viol(P, "events_lost", format!("function {j}: {} events reported but the twin has {} strictly before t*={:e}: {:?}", l, lo, tstar, ns.t_events[j])));
                    } else if l > hi {
                        v.push(viol(P, "events_beyond", format!("function {j}: {} events reported but only {} lie at or before t*={:e}: {:?}", l, hi, tstar, ts.t_events[j])));
                    }
                    if ts.t_events[j].len() != ts.y_events[j].len() {
                        v.push(viol(P, "events_shape", format!("function {j}: t_events and y_events differ in length")));
                    }
                }
                if !cands.iter().any(|(j, i)| ts.t_events[*j].len() == i + 1) {
                    v.push(viol(P, "no_function_reached_count", format!("the run stopped at t*={:e} but no terminal function has exactly its occurrence count of events", tstar)));
                }
                // dense span still covers t*
                if sc.dense {
                    match ts.sol_span() {
                        Some((a, b)) => {
                            let (lo, hi) = (a.min(b), a.max(b));
                            if tstar < lo || tstar > hi {
                                v.push(viol(P, "span", format!("sol_span ({:e},{:e}) does not cover the terminal event at {:e}", a, b, tstar)));
                            }
                        }
                        None => {
                            if tstar.to_bits() != sc.x0.to_bits() {
                                v.push(viol(P, "span", "dense output requested but sol_span is None after a terminal stop".into()));
                            }
                        }
                    }
                }
            }
        }
        v
    }
}
