//! C18 — reported statistics count what actually happened: conservation between the solver's
//! counters and the seam crossings recorded by the simulator, also under cancel / modify / fault /
//! budget histories.

use crate::core::*;
use crate::gen::*;
use crate::rng::{mix, Rng};
use crate::run::*;
use crate::scenario::*;
use ivp::prelude::Status;

pub struct C18;
const P: &str = "C18";
const CHUNK: u64 = 64;

fn lerp(a: f64, b: f64, th: f64) -> f64 {
    a + th * (b - a)
}

fn n_sampled_chunks(tier: Tier) -> u64 {
    match tier {
        Tier::Quick => 5_000,
        Tier::Thorough => 150_000,
    }
}

pub(crate) fn sampled(rng: &mut Rng) -> Scenario {
    let m = gen_method(rng);
    let entry = if rng.bool(0.5) { Entry::High } else { Entry::Low };
    let class = if rng.bool(0.15) { ProbClass::Hostile } else { ProbClass::Smooth };
    let mut sc = gen_base(rng, m, class, entry);
    let p = pilot(&sc);
    let (ncb, node) = match &p {
        Some(p) => (p.grid.len().max(1), p.n_ode.max(2)),
        None => (10, 100),
    };
    if m != Meth::RK4 && rng.bool(0.2) {
        sc.max_step = Some(sc.span() * rng.logu(0.02, 1.5));
    }
    if rng.bool(0.05) {
        // zero-length run
        sc.xend = sc.x0;
        sc.first_step = None;
    }
    if rng.bool(0.05) {
        let d = sc.dir();
        sc.xend = sc.x0 + d * rng.logu(1e-12, 1e-7);
        if m == Meth::RK4 {
            sc.first_step = None;
        }
    }
    match entry {
        Entry::High => {
            sc.dense = rng.bool(0.4);
            if rng.bool(0.25) {
                let n = rng.int(1, 20);
                let d = sc.dir();
                let mut te: Vec<f64> = (0..n).map(|_| lerp(sc.x0, sc.xend, rng.f())).collect();
                te.sort_by(|a, b| (a * d).partial_cmp(&(b * d)).unwrap());
                sc.t_eval = Some(te);
            }
            if rng.bool(0.35) {
                let c = lerp(sc.x0, sc.xend, rng.uni(0.05, 0.95));
                let term = if rng.bool(0.3) { Some(1) } else { None };
                sc.events.push(EventSpec { kind: EvKind::Time { c }, scale: rng.sign(), dir: Dir::All, terminal: term });
                if rng.bool(0.5) {
                    sc.events.push(EventSpec { kind: EvKind::Sin { w: rng.uni(3.0, 25.0) / sc.span().max(1e-300), phi: c }, scale: 1.0, dir: Dir::All, terminal: None });
                }
            }
        }
        Entry::Low => {
            sc.knobs = gen_knobs(rng, m);
            let na = rng.int(0, 3);
            for _ in 0..na {
                let k = rng.int(0, ncb);
                if sc.actions.iter().any(|(kk, _)| *kk == k) {
                    continue;
                }
                let a = match rng.int(0, 4) {
                    0 if rng.bool(0.5) => Action::Interrupt,
                    1 | 2 => Action::ModIdentity,
                    3 => Action::ModScale(*rng.pick(&[0.5, 2.0])),
                    _ => Action::ModPerturb(rng.sign() * rng.logu(1e-8, 1e-3)),
                };
                sc.actions.push((k, a));
            }
            if m != Meth::BDF && rng.bool(0.2) {
                // the solver's own dense output switched off; a callback asks for an interpolant
                // from some abscissa on (ControlFlag::XOut)
                sc.low_dense = false;
                let k = rng.int(0, ncb.saturating_sub(1));
                if !sc.actions.iter().any(|(kk, _)| *kk == k) {
                    let xo = if rng.bool(0.35) { sc.xend } else { sc.x0 + (sc.xend - sc.x0) * rng.f() };
                    sc.actions.push((k, Action::XOut(xo)));
                }
            }
            sc.actions.sort_by_key(|a| a.0);
        }
    }
    // abnormal exits
    match rng.int(0, 9) {
        0 | 1 => sc.max_steps = Some(rng.int(1, ncb + 2)),
        2 => {
            let n = rng.int(2, node as usize) as u64;
            let kind = *rng.pick(&[FaultKind::NanAll, FaultKind::PosInf]);
            sc.faults.push(make_fault(rng, Trigger::From(n), kind, sc.prob.dim()));
        }
        3 => {
            // transient glitches force rejections
            for _ in 0..rng.int(1, 3) {
                let n = rng.int(2, node as usize) as u64;
                let mut f = make_fault(rng, Trigger::At(n), FaultKind::Glitch, sc.prob.dim());
                f.mag = rng.sign() * rng.logu(1e2, 1e6);
                sc.faults.push(f);
            }
        }
        4 => {
            // transient non-finite values: the retry paths (NaN error norm, non-finite dense
            // stage, failed Newton iteration) have their own counter bookkeeping
            let n = rng.int(2, node as usize + 1) as u64;
            let trigger = if rng.bool(0.6) { Trigger::At(n) } else { Trigger::Burst(n, rng.int(2, 4) as u64) };
            let kind = *rng.pick(&[FaultKind::NanAll, FaultKind::NanOne, FaultKind::PosInf, FaultKind::NegInf]);
            sc.faults.push(make_fault(rng, trigger, kind, sc.prob.dim()));
        }
        _ => {}
    }
    sc
}

impl Prop for C18 {
    fn id(&self) -> &'static str {
        P
    }
    fn level(&self) -> &'static str {
        "exploration"
    }
    fn rule(&self) -> String {
        "seeded swarm over problems (incl. hostile ones), methods, tolerances, directions, analytic vs the crate's own finite-difference Jacobian (run for real through an adapter so that its internal RHS calls are tagged), high-level and low-level entry, and every abnormal exit the simulator can produce: Interrupt / ModifiedSolution at chosen callbacks, step budget, persistent non-finite RHS fault, transient glitches forcing rejections, transient non-finite values (retry paths), terminal events, zero-length and tiny intervals. Non-trivial = the run made at least 3 accepted steps or ended abnormally; distinct = distinct run fingerprint.".into()
    }
    fn assumptions(&self) -> Vec<String> {
        vec![
            "nfev is compared with the simulator's count of S1 crossings not made inside IVP::jac; njev with the count of S2 crossings; naccpt with callbacks-1 (low level) and with len(t)-1 when neither t_eval nor first_step filters the output".into(),
            "a run that hangs or panics is owned by C04 and counted as blocked here".into(),
        ]
    }
    fn n_items(&self, tier: Tier) -> u64 {
        n_sampled_chunks(tier)
    }
    fn expand(&self, item: u64, _tier: Tier, seed: u64) -> Vec<Scenario> {
        (0..CHUNK)
            .map(|j| {
                let mut rng = Rng::new(mix(seed, P, item * CHUNK + j));
                sampled(&mut rng)
            })
            .collect()
    }

    fn check(&self, sc: &Scenario, cov: &mut Cov) -> Vec<Violation> {
        let mut v = Vec::new();
        let (nfev, njev, nstep, naccpt, nrejct, status, ode_total, ode_in_jac, jac_calls, intervals, fp): (usize, usize, usize, usize, usize, Status, u64, u64, u64, Option<usize>, u64);
        match sc.entry {
            Entry::High => {
                let o = run_high(sc, false);
                cov.note_high(&o);
                if o.verdict != Verdict::Returned {
                    if matches!(o.verdict, Verdict::Error(_)) {
                        cov.bump("outcome.err");
                    } else {
                        cov.blocked += 1;
                    }
                    return v;
                }
                let s = o.sol.as_ref().unwrap();
                nfev = s.nfev;
                njev = s.njev;
                nstep = s.nstep;
                naccpt = s.naccpt;
                nrejct = s.nrejct;
                status = s.status;
                ode_total = o.st.ode_calls;
                ode_in_jac = o.st.ode_calls_in_jac;
                jac_calls = o.st.jac_calls;
                intervals = if sc.t_eval.is_none() && sc.first_step.is_none() { Some(s.t.len().saturating_sub(1)) } else { None };
                fp = o.fp;
            }
            Entry::Low => {
                let o = run_low(sc, false);
                cov.note_low(&o);
                if o.verdict != Verdict::Returned {
                    if matches!(o.verdict, Verdict::Error(_)) {
                        cov.bump("outcome.err");
                    } else {
                        cov.blocked += 1;
                    }
                    return v;
                }
                let r = o.res.as_ref().unwrap();
                nfev = r.evals.ode;
                njev = r.evals.jac;
                nstep = r.steps.total;
                naccpt = r.steps.accepted;
                nrejct = r.steps.rejected;
                status = r.status;
                ode_total = o.st.ode_calls;
                ode_in_jac = o.st.ode_calls_in_jac;
                jac_calls = o.st.jac_calls;
                intervals = Some(o.n_cb.saturating_sub(1));
                fp = o.fp;
            }
        }
        let _ = nrejct;
        if naccpt >= 3 || status != Status::Success {
            cov.nontrivial.insert(fp);
        }
        if cov.samples.len() < 4 && status != Status::Success {
            cov.sample(serde_json::json!({"scenario": sc.summary(), "status": status_name(status), "nfev": nfev, "S1_crossings_outside_jac": ode_total - ode_in_jac, "njev": njev, "S2_crossings": jac_calls, "naccpt": naccpt, "intervals": intervals}));
        }
        let stepper_evals = ode_total - ode_in_jac;
        if nfev as u64 != stepper_evals {
            v.push(viol(P, "nfev", format!("nfev={} but the stepper evaluated the right-hand side {} times ({} more inside Jacobian differencing); status {}", nfev, stepper_evals, ode_in_jac, status_name(status))));
        }
        if njev as u64 != jac_calls {
            v.push(viol(P, "njev", format!("njev={} but the Jacobian callback was entered {} times", njev, jac_calls)));
        }
        if let Some(iv) = intervals {
            // a terminal event truncates the last accepted step at the event point; when the event
            // lies on the left end of that step the truncated interval is empty
            let truncated_ok = sc.entry == Entry::High && status == Status::UserInterrupt && naccpt == iv + 1;
            if naccpt != iv && !truncated_ok {
                v.push(viol(P, "naccpt", format!("naccpt={} but {} intervals were reported ({}); status {}", naccpt, iv, if sc.entry == Entry::Low { "callbacks-1" } else { "len(t)-1" }, status_name(status))));
            }
        }
        if nstep < naccpt {
            v.push(viol(P, "nstep", format!("nstep={} < naccpt={}", nstep, naccpt)));
        }
        if sc.x0 == sc.xend && sc.entry == Entry::High && (nfev != 0 || njev != 0 || nstep != 0 || naccpt != 0) {
            v.push(viol(P, "zero_length", format!("zero-length run reports nfev={} njev={} nstep={} naccpt={}", nfev, njev, nstep, naccpt)));
        }
        v
    }
}
