pub mod c04;

use crate::core::Prop;

pub fn by_id(id: &str) -> Option<Box<dyn Prop>> {
    match id {
        "C04" => Some(Box::new(c04::C04)),
        _ => None,
    }
}

pub const CLAIMED: [&str; 1] = ["C04"];
