pub mod c03;
pub mod c04;
pub mod c05;
pub mod c06;
pub mod c0809;
pub mod c10;
pub mod c11;
pub mod c12;
pub mod c18;
pub mod c19;

use crate::core::Prop;

pub fn by_id(id: &str) -> Option<Box<dyn Prop>> {
    match id {
        "C03" => Some(Box::new(c03::C03)),
        "C04" => Some(Box::new(c04::C04)),
        "C05" => Some(Box::new(c05::C05)),
        "C06" => Some(Box::new(c06::C06)),
        "C08" => Some(Box::new(c0809::C08)),
        "C09" => Some(Box::new(c0809::C09)),
        "C10" => Some(Box::new(c10::C10)),
        "C11" => Some(Box::new(c11::C11)),
        "C12" => Some(Box::new(c12::C12)),
        "C18" => Some(Box::new(c18::C18)),
        "C19" => Some(Box::new(c19::C19)),
        _ => None,
    }
}

pub const CLAIMED: [&str; 1] = ["C04"];
