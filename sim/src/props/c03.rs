//! C03 — interval discipline and honest status. Run-time invariants at the callback seams plus
//! status honesty judged from observables on fault-free, cancelled and fault/budget-stopped runs.

use crate::core::*;
use crate::gen::*;
use crate::problems::Problem;
use crate::rng::{mix, Rng};
use crate::run::*;
use crate::scenario::*;
use crate::util::*;
use ivp::prelude::Status;

pub struct C03;
const P: &str = "C03";
const CHUNK: u64 = 64;

fn lerp(a: f64, b: f64, th: f64) -> f64 {
    a + th * (b - a)
}

fn n_sampled_chunks(tier: Tier) -> u64 {
    match tier {
        Tier::Quick => 6_000,
        Tier::Thorough => 180_000,
    }
}

/// deterministic sweep: every method x direction x span class x option class
fn sweep_cases() -> Vec<Scenario> {
    let mut out = Vec::new();
    let spans = [1e-12, 1e-9, 1e-6, 1e-3, 0.3, 1.0, 7.0];
    for m in ALL_METHODS {
        for backward in [false, true] {
            for x0 in [0.0, 3.0] {
                for &span in &spans {
                    for oc in 0..9u8 {
                        let xend = if backward { x0 - span } else { x0 + span };
                        let mut sc = Scenario::basic(m, Problem::Decay { lam: 1.0 }, x0, xend, vec![1.0]);
                        sc.rtol = vec![1e-5];
                        sc.atol = vec![1e-8];
                        let d = sc.dir();
                        match oc {
                            0 => {}
                            1 => sc.first_step = Some(d * span * 0.1),
                            2 => sc.first_step = Some(d * span * 3.0),
                            3 => sc.first_step = Some(-d * span * 0.1),
                            4 => sc.max_step = Some(f64::INFINITY),
                            5 => sc.max_step = Some(span * 4.0),
                            6 => sc.max_step = Some(span / 4.0),
                            7 => {
                                sc.first_step = Some(d * span * 0.3);
                                sc.max_step = Some(span / 2.0);
                            }
                            _ => {
                                sc.first_step = Some(d * span * 0.3);
                                sc.dense = true;
                                sc.t_eval = Some(vec![x0, lerp(x0, xend, 0.5), xend]);
                            }
                        }
                        if m == Meth::RK4 && sc.first_step.is_none() && oc % 2 == 0 {
                            // a fixed step that does not divide the span
                            sc.first_step = Some(d * span * 0.3);
                        }
                        out.push(sc);
                    }
                }
            }
        }
    }
    out
}

pub(crate) fn sampled(rng: &mut Rng) -> Scenario {
    let m = gen_method(rng);
    let (mut sc, _p) = gen_admissible(rng, m, ProbClass::Smooth, Entry::High, 20_000, &mut |_, _| {});
    let d = sc.dir();
    // span class
    let gentle = matches!(sc.prob, Problem::Decay { .. } | Problem::Logistic { .. } | Problem::Forced | Problem::Zero { .. });
    let mut infinite = false;
    match rng.int(0, 19) {
        0 | 1 => sc.xend = sc.x0 + d * rng.logu(1e-12, 1e-6),
        2 | 3 => sc.xend = sc.x0 + d * rng.logu(1e-6, 1e-2),
        4 if gentle && d > 0.0 => {
            sc.xend = sc.x0 + rng.logu(1e2, 1e3);
            sc.rtol = vec![sc.rtol[0].max(1e-5)];
        }
        5 => {
            infinite = true;
        }
        _ => {}
    }
    let span = sc.span();
    if m == Meth::RK4 {
        sc.first_step = if rng.bool(0.4) { None } else { Some(d * span / rng.uni(3.0, 120.0)) };
    }
    // options
    if rng.bool(0.45) {
        let mag = match rng.int(0, 5) {
            0 => span * rng.uni(1.5, 10.0),
            1 => span,
            // just short of the span: inside the solvers' 'this step is the last one' windows
            // (1% / 0.01% stretch), where the step has to be lengthened onto xend
            2 => span * (1.0 - rng.logu(1e-13, 5e-3)),
            _ => span * rng.logu(1e-6, 1.0),
        };
        let sign = if rng.bool(0.8) { d } else { -d };
        // RK4: first_step is the fixed step; keep the run below a few thousand steps
        let mag = if m == Meth::RK4 { mag.max(span / 2000.0) } else { mag };
        // a first step below the resolution of x0 does not move x at all: not a valid configuration
        let mag = mag.max(64.0 * EPS * sc.x0.abs().max(sc.xend.abs()));
        sc.first_step = Some(sign * mag);
    }
    if rng.bool(0.5) && m != Meth::RK4 {
        sc.max_step = Some(match rng.int(0, 5) {
            0 => f64::INFINITY,
            1 => span * rng.uni(1.0, 5.0),
            2 => span / rng.int(1, 12) as f64,
            _ => span * rng.logu(0.01, 1.0),
        });
    }
    if m.implicit() && rng.bool(0.15) {
        // a valid lower bound on the step (below max_step and the interval)
        let cap = sc.max_step.unwrap_or(f64::INFINITY).min(span);
        sc.min_step = Some(cap * rng.logu(1e-4, 0.5));
    }
    let mut ulp_regime = false;
    if rng.bool(0.03) {
        ulp_regime = true;
        // an interval of a few (to a few thousand) ulps at a large abscissa
        let big = rng.sign() * rng.logu(1e3, 1e9);
        sc.x0 = big;
        sc.xend = big + d * big.abs() * rng.logu(3e-16, 1e-12);
        sc.max_step = None;
        sc.min_step = None;
        sc.first_step = if m == Meth::RK4 { Some(sc.xend - sc.x0) } else { None };
        sc.events.clear();
    }
    sc.dense = rng.bool(0.5);
    if rng.bool(0.3) {
        let n = rng.int(0, 12);
        let mut te: Vec<f64> = (0..n).map(|_| lerp(sc.x0, sc.xend, rng.f())).collect();
        if rng.bool(0.5) {
            te.push(sc.x0);
        }
        if rng.bool(0.5) {
            te.push(sc.xend);
        }
        te.sort_by(|a, b| (a * d).partial_cmp(&(b * d)).unwrap());
        sc.t_eval = Some(te);
    }
    if rng.bool(0.4) {
        let ne = rng.int(1, 3);
        for _ in 0..ne {
            let c = lerp(sc.x0, sc.xend, rng.f());
            let kind = match rng.int(0, 2) {
                0 => EvKind::Time { c },
                1 => EvKind::Sin { w: rng.uni(2.0, 30.0) / span, phi: c },
                _ => EvKind::State { i: rng.int(0, sc.prob.dim() - 1), c: sc.y0[0] * rng.uni(0.2, 1.2) },
            };
            let terminal = if rng.bool(0.35) { Some(rng.int(1, 2)) } else { None };
            sc.events.push(EventSpec { kind, scale: rng.sign() * rng.logu(0.1, 10.0), dir: *rng.pick(&[Dir::All, Dir::Pos, Dir::Neg]), terminal });
        }
    }
    if infinite {
        // infinite interval, ended by a terminal time event
        let stop = sc.x0 + d * rng.logu(0.2, 5.0);
        sc.xend = d * f64::INFINITY;
        // (C04 speaks of finite configurations only; an infinite interval with a zero error scale
        // yields a non-finite initial step that no end of interval ever clamps - such runs would
        // merely be blocked here, so they are not generated)
        if sc.atol.iter().all(|a| *a == 0.0) {
            sc.atol = vec![1e-9];
        }
        sc.t_eval = None;
        sc.max_step = if rng.bool(0.5) { None } else { Some(rng.logu(0.05, 2.0)) };
        sc.first_step = if m == Meth::RK4 { Some(d * rng.logu(0.01, 0.2)) } else { None };
        sc.events = vec![EventSpec { kind: EvKind::Time { c: stop }, scale: 1.0, dir: Dir::All, terminal: Some(1) }];
        return sc;
    }
    // early stops other than terminal events (not in the ulp regime: there a solver may reach xend
    // without noticing and re-evaluate the RHS at xend once more; a fault injected at that moment
    // makes an honest failure look like 'covered but not Success')
    match if ulp_regime { 9 } else { rng.int(0, 9) } {
        0 | 1 => sc.max_steps = Some(rng.int(1, 60)),
        2 | 3 => {
            sc.faults.push(FaultSpec { trigger: Trigger::From(rng.int(2, 300) as u64), kind: *rng.pick(&[FaultKind::NanAll, FaultKind::PosInf]), comp: 0, mag: 1.0 });
        }
        4 => {
            sc.faults.push(FaultSpec { trigger: Trigger::AfterTime(lerp(sc.x0, sc.xend, rng.f())), kind: FaultKind::NanAll, comp: 0, mag: 1.0 });
        }
        5 => {
            // a transient non-finite fault: the solver may recover (retry the step) - and must then
            // still be honest about how far it got. Biased to the crossings of the last step,
            // where a retry meets the closing-step logic.
            let (lo, hi) = match pilot(&sc) {
                Some(p) if p.cb_ode_calls.len() >= 2 && rng.bool(0.7) => (p.cb_ode_calls[p.cb_ode_calls.len() - 2] + 1, p.n_ode.max(p.cb_ode_calls[p.cb_ode_calls.len() - 2] + 1)),
                Some(p) => (1, p.n_ode.max(1)),
                None => (1, 300),
            };
            let n = rng.int(lo as usize, hi as usize) as u64;
            let trigger = if rng.bool(0.7) { Trigger::At(n) } else { Trigger::Burst(n, rng.int(2, 4) as u64) };
            sc.faults.push(FaultSpec { trigger, kind: *rng.pick(&[FaultKind::NanAll, FaultKind::NanOne, FaultKind::PosInf, FaultKind::NegInf]), comp: 0, mag: 1.0 });
        }
        _ => {}
    }
    sc
}

impl Prop for C03 {
    fn id(&self) -> &'static str {
        P
    }
    fn level(&self) -> &'static str {
        "exploration"
    }
    fn rule(&self) -> String {
        "a deterministic sweep (6 methods x 2 directions x x0 in {0,3} x 7 span lengths 1e-12..7 x 9 option classes: first_step inside/larger than the span/wrong sign, max_step inf/larger/smaller, t_eval+dense) plus a seeded swarm over problems, spans (tiny 1e-12.., huge, infinite with a terminal event), first_step (incl. > span, either sign), max_step (inf, > span, divisors), t_eval, dense_output, events, in three sub-populations: fault-free, cancelled by a terminal event, stopped by a step budget or a non-finite RHS fault. Non-trivial = the run returned a Solution with at least 2 samples or a non-Success status; distinct = distinct run fingerprint.".into()
    }
    fn assumptions(&self) -> Vec<String> {
        vec![
            "'covered the whole interval' is read from observables: the end of the dense span (from a dense_output=true twin when the scenario has it off) equals xend within delta_t".into(),
            "'a terminal event stopped the run' is read from the twin with terminal flags cleared".into(),
            "times carry the absolute slack delta_t = 8*eps*max(|x0|,|xend|) (times the step count for RK4, whose x is accumulated)".into(),
        ]
    }
    fn n_items(&self, tier: Tier) -> u64 {
        1 + n_sampled_chunks(tier)
    }
    fn n_enumerated_items(&self, _tier: Tier) -> u64 {
        1
    }
    fn expand(&self, item: u64, _tier: Tier, seed: u64) -> Vec<Scenario> {
        if item == 0 {
            return sweep_cases();
        }
        let chunk = item - 1;
        (0..CHUNK)
            .map(|j| {
                let mut rng = Rng::new(mix(seed, P, chunk * CHUNK + j));
                sampled(&mut rng)
            })
            .collect()
    }

    fn check(&self, sc: &Scenario, cov: &mut Cov) -> Vec<Violation> {
        let mut v = Vec::new();
        let dir = sc.dir();
        let r = run_high(sc, false);
        cov.note_high(&r);
        match &r.verdict {
            Verdict::Returned => {}
            Verdict::Error(_) => {
                cov.bump("outcome.err");
                return v;
            }
            _ => {
                cov.blocked += 1;
                return v;
            }
        }
        let s = r.sol.as_ref().unwrap();
        if s.t.len() >= 2 || s.status != Status::Success {
            cov.nontrivial.insert(r.fp);
        }
        let n = sc.prob.dim();
        let nsteps = (s.naccpt.max(s.nstep)).max(1) as f64;
        let dt = delta_t(sc, 0.0) * if sc.method == Meth::RK4 { nsteps } else { 1.0 };
        let (lo, hi) = (sc.x0.min(sc.xend), sc.x0.max(sc.xend));
        // --- seam invariant: nothing is evaluated outside the closed interval
        if r.st.t_lo < lo - dt || r.st.t_hi > hi + dt {
            let worst = if r.st.t_lo < lo - dt { r.st.t_lo } else { r.st.t_hi };
            v.push(viol(P, "eval_outside", format!("a callback (ode/jac/events) was evaluated at t={:e}, outside [{:e}, {:e}] by {:e}", worst, lo, hi, (lo - r.st.t_lo).max(r.st.t_hi - hi))));
        }
        // --- shape
        if s.t.len() != s.y.len() {
            v.push(viol(P, "shape", format!("len(t)={} != len(y)={}", s.t.len(), s.y.len())));
        }
        if let Some(i) = s.y.iter().position(|y| y.len() != n) {
            v.push(viol(P, "shape", format!("sample {i} has dimension {} != {n}", s.y[i].len())));
        }
        if s.t_events.len() != sc.events.len() || s.y_events.len() != sc.events.len() {
            v.push(viol(P, "shape", "t_events / y_events do not have one list per event function".into()));
        }
        // --- start, order, range
        if sc.t_eval.is_none() {
            match s.t.first() {
                Some(t0) if t0.to_bits() == sc.x0.to_bits() => {}
                other => v.push(viol(P, "start", format!("first sample time is {:?}, x0={:e}", other, sc.x0))),
            }
        }
        // a requested time that occurs twice in t_eval is reported twice (C05); only there may
        // two consecutive sample times be equal
        let requested_twice = |t: f64| sc.t_eval.as_ref().map(|te| te.iter().filter(|x| x.to_bits() == t.to_bits()).count() >= 2).unwrap_or(false);
        if let Some(i) = (1..s.t.len()).find(|&i| !((s.t[i] - s.t[i - 1]) * dir > 0.0) && !(s.t[i].to_bits() == s.t[i - 1].to_bits() && requested_twice(s.t[i]))) {
            v.push(viol(P, "monotone", format!("sample times are not strictly monotone toward xend: t[{}]={:e}, t[{}]={:e}", i - 1, s.t[i - 1], i, s.t[i])));
        }
        if let Some(t) = s.t.iter().find(|&&t| t < lo - dt || t > hi + dt) {
            v.push(viol(P, "beyond_xend", format!("sample time {:e} lies outside [{:e}, {:e}]", t, lo, hi)));
        }
        if let Some(t) = s.t_events.iter().flatten().find(|&&t| t < lo - dt || t > hi + dt) {
            v.push(viol(P, "event_outside", format!("event time {:e} lies outside [{:e}, {:e}]", t, lo, hi)));
        }
        // --- finiteness under Success
        if s.status == Status::Success && sc.method.error_controlled() {
            if s.y.iter().any(|y| !all_finite(y)) || s.t.iter().any(|t| !t.is_finite()) {
                v.push(viol(P, "success_nonfinite", "status Success with non-finite values from an error-controlled method".into()));
            }
        }
        // --- status honesty (observables: dense span of a dense twin, non-terminal twin)
        let zero_len = (sc.xend - sc.x0).abs() < 1e-15;
        if zero_len {
            if s.status != Status::Success {
                v.push(viol(P, "zero_length", format!("zero-length run reports {}", status_name(s.status))));
            }
            return v;
        }
        let span_end: Option<f64> = if sc.dense {
            s.sol_span().map(|x| x.1)
        } else {
            let mut d = sc.clone();
            d.dense = true;
            let dr = run_high(&d, false);
            cov.note_high(&dr);
            match (&dr.verdict, &dr.sol) {
                (Verdict::Returned, Some(ds)) if ds.status == s.status && ds.naccpt == s.naccpt => ds.sol_span().map(|x| x.1),
                _ => {
                    cov.blocked += 1;
                    return v;
                }
            }
        };
        let covered = match span_end {
            Some(e) => sc.xend.is_finite() && (e - sc.xend).abs() <= dt,
            None => false,
        };
        let has_terminal = sc.events.iter().any(|e| e.terminal.is_some());
        let mut terminal_reached = false;
        if has_terminal && !sc.xend.is_finite() {
            // the twin without terminal flags would integrate forever: read the stop from the
            // run itself (a terminal function has exactly its count of events, the last one being
            // the final sample)
            terminal_reached = sc.events.iter().enumerate().any(|(j, e)| match e.terminal {
                Some(c) => s.t_events[j].len() == c && s.t_events[j].last().map(|x| Some(x) == s.t.last()).unwrap_or(false),
                None => false,
            });
        } else if has_terminal {
            let mut nsc = sc.clone();
            for e in nsc.events.iter_mut() {
                e.terminal = None;
            }
            let nr = run_high(&nsc, false);
            cov.note_high(&nr);
            match (&nr.verdict, &nr.sol) {
                (Verdict::Returned, Some(ns)) => {
                    terminal_reached = sc.events.iter().enumerate().any(|(j, e)| e.terminal.map(|c| c >= 1 && ns.t_events[j].len() >= c).unwrap_or(false));
                }
                _ => {
                    cov.blocked += 1;
                    return v;
                }
            }
        }
        cov.bump(&format!("honesty.{}{}", status_name(s.status), if covered { ".covered" } else { ".not_covered" }));
        match s.status {
            Status::Success => {
                if !covered {
                    v.push(viol(P, "success_not_covered", format!("status Success but the integration covered only up to {:?} (xend={:e})", span_end, sc.xend)));
                }
                if sc.t_eval.is_none() {
                    match s.t.last() {
                        Some(tl) if (tl - sc.xend).abs() <= dt => {}
                        other => v.push(viol(P, "success_last_sample", format!("status Success without t_eval but the last sample time is {:?}, xend={:e}", other, sc.xend))),
                    }
                }
                if terminal_reached {
                    v.push(viol(P, "terminal_ignored", "a terminal function reaches its occurrence count in the twin run but status is Success".into()));
                }
            }
            Status::UserInterrupt => {
                if !terminal_reached {
                    v.push(viol(P, "spurious_interrupt", "status UserInterrupt but no terminal function reaches its occurrence count in the twin run".into()));
                }
            }
            other => {
                // strict reading for this direction: the last accepted abscissa IS xend (bitwise),
                // so nothing is left to integrate, yet the status is not Success. (A run that
                // stops a few ulps short may honestly believe there is more to do.)
                let covered_exactly = span_end.map(|e| e.to_bits() == sc.xend.to_bits()).unwrap_or(false);
                // (only on runs in which no injected fault fired: a solver that has landed on xend
                // without noticing re-evaluates the RHS there once more - xend is inside the closed
                // interval - and if that evaluation is the faulted one, the non-success status is
                // the honest outcome C04 asks for under faults)
                let fired: u64 = r.st.fired.iter().sum();
                if covered_exactly && !terminal_reached && fired > 0 {
                    cov.bump("honesty.covered_but_failed_after_a_fault");
                }
                if covered_exactly && !terminal_reached && fired == 0 {
                    v.push(viol(P, "covered_not_success", format!("the integration covered the whole interval (dense span ends at {:?}, xend={:e}) but status is {}", span_end, sc.xend, status_name(other))));
                }
                if terminal_reached {
                    cov.bump("honesty.terminal_reached_but_failed_first");
                }
            }
        }
        if cov.samples.len() < 4 && s.status != Status::Success {
            cov.sample(serde_json::json!({"scenario": sc.summary(), "status": status_name(s.status), "samples": s.t.len(), "covered": covered}));
        }
        v
    }
}
