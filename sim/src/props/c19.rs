//! C19 — the SolOut callback protocol of the low-level solvers, under arbitrary
//! Interrupt / ModifiedSolution histories, checked against a protocol reference model.

use crate::catalogue;
use crate::core::*;
use crate::gen::*;
use crate::protocol::*;
use crate::rng::{mix, Rng};
use crate::run::*;
use crate::scenario::*;
use crate::util::*;
use ivp::prelude::Status;

pub struct C19;
const P: &str = "C19";
const CHUNK: u64 = 64;

#[derive(Clone)]
struct Base {
    k: usize,
    m: Meth,
    backward: bool,
    /// 0 interrupt@k, 1 identity@k, 2 scale2@k, 3 perturb@k, 4 all ordered pairs (identity, perturb)
    mode: u8,
    jac: JacMode,
}

fn bases(tier: Tier) -> Vec<Base> {
    let mut v = Vec::new();
    let ks: &[usize] = match tier {
        Tier::Quick => &[1, 2],
        Tier::Thorough => &[1, 2, 3, 5, 6, 7, 8],
    };
    for &k in ks {
        for m in ALL_METHODS {
            if k == 7 && !m.implicit() {
                continue;
            }
            for backward in [false, true] {
                if tier == Tier::Quick && backward && k != 2 {
                    continue;
                }
                for mode in 0..5u8 {
                    if mode == 4 && !(k == 1 || k == 2) {
                        continue;
                    }
                    let jac = if k == 7 || (k == 3) { JacMode::Fd } else { JacMode::Analytic };
                    v.push(Base { k, m, backward, mode, jac });
                }
            }
        }
    }
    v
}

fn n_sampled_chunks(tier: Tier) -> u64 {
    match tier {
        Tier::Quick => 3_000,
        Tier::Thorough => 120_000,
    }
}

fn base_scenario(b: &Base) -> Scenario {
    let mut sc = catalogue::k(b.k, b.m, b.backward);
    sc.entry = Entry::Low;
    sc.jac = b.jac;
    if b.mode == 4 {
        // keep runs short so that all ordered pairs stay cheap
        sc.rtol = vec![1e-3];
        if sc.atol[0] != 0.0 {
            sc.atol = vec![1e-6];
        }
        if b.m == Meth::RK4 {
            sc.first_step = Some((sc.xend - sc.x0) / 12.0);
        }
    }
    sc
}

fn expand_base(b: &Base) -> Vec<Scenario> {
    let sc = base_scenario(b);
    let p = match pilot(&sc) {
        Some(p) => p,
        None => return vec![],
    };
    let m = p.grid.len(); // number of callbacks of the unperturbed run
    let mut out = Vec::new();
    match b.mode {
        0..=3 => {
            for k in 0..(m + 1) {
                let mut s = sc.clone();
                let a = match b.mode {
                    0 => Action::Interrupt,
                    1 => Action::ModIdentity,
                    2 => Action::ModScale(2.0),
                    _ => Action::ModPerturb(1e-4),
                };
                s.actions = vec![(k, a)];
                out.push(s);
            }
        }
        _ => {
            let mm = m.min(24);
            for k1 in 0..mm {
                for k2 in (k1 + 1)..mm {
                    for (a1, a2) in [
                        (Action::ModIdentity, Action::ModIdentity),
                        (Action::ModPerturb(1e-3), Action::ModIdentity),
                        (Action::ModScale(0.5), Action::ModScale(4.0)),
                        (Action::ModIdentity, Action::Interrupt),
                    ] {
                        let mut s = sc.clone();
                        s.actions = vec![(k1, a1), (k2, a2)];
                        out.push(s);
                    }
                }
            }
        }
    }
    out
}

fn pow2(rng: &mut Rng) -> f64 {
    *rng.pick(&[0.25, 0.5, 2.0, 4.0, 8.0])
}

pub(crate) fn sampled(rng: &mut Rng) -> Scenario {
    let m = gen_method(rng);
    let family = rng.int(0, 3);
    let class = if family == 2 { ProbClass::LinHom } else { ProbClass::Smooth };
    let (mut sc, p) = gen_admissible(rng, m, class, Entry::Low, 50_000, &mut |rng, sc| {
        sc.knobs = gen_knobs(rng, sc.method);
        if family == 2 {
            sc.atol = vec![0.0];
            // keep every component away from an exact zero start
            for y in sc.y0.iter_mut() {
                if y.abs() < 0.05 {
                    *y = 0.3;
                }
            }
            if matches!(sc.prob, crate::problems::Problem::Zero { .. }) {
                sc.prob = crate::problems::Problem::Rot { a: -0.2, w: 1.5 };
                sc.y0 = vec![1.0, 0.4];
            }
        }
        if sc.method != Meth::RK4 {
            if rng.bool(0.25) {
                sc.max_step = Some(sc.span() * rng.logu(0.02, 1.5));
            }
            if rng.bool(0.25) {
                sc.first_step = Some(sc.span() * rng.logu(1e-4, 0.3));
            }
        }
    });
    let ncb = p.grid.len();
    let pick_k = |rng: &mut Rng| -> usize {
        match rng.int(0, 9) {
            0 => 0,
            1 => ncb.saturating_sub(1),
            2 => ncb + rng.int(0, 2),
            _ => rng.int(0, ncb.saturating_sub(1)),
        }
    };
    match family {
        0 => {
            // arbitrary plans
            let na = rng.int(0, 4);
            let mut used = Vec::new();
            for _ in 0..na {
                let k = pick_k(rng);
                if used.contains(&k) {
                    continue;
                }
                used.push(k);
                let a = match rng.int(0, 5) {
                    0 => Action::Interrupt,
                    1 | 2 => Action::ModIdentity,
                    3 => Action::ModScale(pow2(rng)),
                    _ => Action::ModPerturb(rng.sign() * rng.logu(1e-8, 1e-3)),
                };
                sc.actions.push((k, a));
            }
            if m != Meth::BDF && rng.bool(0.2) {
                // dense output off, interpolants on demand (ControlFlag::XOut)
                sc.low_dense = false;
                let k = pick_k(rng);
                if !used.contains(&k) {
                    let xo = if rng.bool(0.35) { sc.xend } else { sc.x0 + (sc.xend - sc.x0) * rng.f() };
                    sc.actions.push((k, Action::XOut(xo)));
                }
            }
        }
        1 => {
            // identity-only plans (twin: no-op)
            let na = rng.int(1, 4);
            let mut used = Vec::new();
            for _ in 0..na {
                let k = pick_k(rng);
                if !used.contains(&k) {
                    used.push(k);
                    sc.actions.push((k, Action::ModIdentity));
                }
            }
        }
        2 => {
            // doubling plans on linear homogeneous problems, atol = 0
            let na = if m == Meth::RADAU { 1 } else { rng.int(1, 3) };
            let mut used = Vec::new();
            for _ in 0..na {
                let k = rng.int(0, ncb.saturating_sub(1));
                if !used.contains(&k) {
                    used.push(k);
                    sc.actions.push((k, Action::ModScale(pow2(rng))));
                }
            }
        }
        _ => {
            // a single interrupt somewhere
            sc.actions.push((pick_k(rng), Action::Interrupt));
        }
    }
    sc.actions.sort_by_key(|a| a.0);
    sc
}

fn is_pow2(f: f64) -> bool {
    f > 0.0 && f.is_finite() && (f.to_bits() & ((1u64 << 52) - 1)) == 0
}

impl Prop for C19 {
    fn id(&self) -> &'static str {
        P
    }
    fn level(&self) -> &'static str {
        "fault_enumeration"
    }
    fn rule(&self) -> String {
        "enumerated: for every catalogue base (problem K x method x direction) Interrupt / ModifiedSolution(identity) / ModifiedSolution(x2) / ModifiedSolution(perturbed) at EVERY callback index 0..m, and all ordered pairs k1<k2 of actions for the short runs; sampled: swarm of problems/knobs/step options with plans of 0-4 actions, identity-only plans and power-of-two scaling plans on linear homogeneous problems. Non-trivial = at least one planned action was actually delivered to the solver; distinct = distinct fingerprint of the full seam log + result.".into()
    }
    fn assumptions(&self) -> Vec<String> {
        vec![
            "the reference model reads the protocol from the doc comments of SolOut and the property text; ControlFlag::XOut (undocumented) is part of the simulated callback's schedule, but the model only demands that every interpolant handed out is valid on its step - not when an on-demand interpolant is due".into(),
            "interpolant end-point agreement is judged with tau_I (DESIGN §5); bitwise twin comparisons elsewhere".into(),
            "BDF identity modification is judged by the protocol clauses only (a history restart is documented behaviour)".into(),
        ]
    }
    fn n_items(&self, tier: Tier) -> u64 {
        bases(tier).len() as u64 + n_sampled_chunks(tier)
    }
    fn exhaustive(&self, _tier: Tier) -> bool {
        true
    }
    fn n_enumerated_items(&self, tier: Tier) -> u64 {
        bases(tier).len() as u64
    }
    fn expand(&self, item: u64, tier: Tier, seed: u64) -> Vec<Scenario> {
        let bs = bases(tier);
        if (item as usize) < bs.len() {
            return expand_base(&bs[item as usize]);
        }
        let chunk = item - bs.len() as u64;
        (0..CHUNK)
            .map(|j| {
                let mut rng = Rng::new(mix(seed, P, chunk * CHUNK + j));
                sampled(&mut rng)
            })
            .collect()
    }

    fn check(&self, sc: &Scenario, cov: &mut Cov) -> Vec<Violation> {
        let o = run_low(sc, true);
        cov.note_low(&o);
        if let Verdict::Error(msg) = &o.verdict {
            // every scenario of this campaign is a valid configuration (tolerances, knobs and step
            // options inside their documented ranges): the protocol's first clause - one callback
            // at x0 before stepping - is due. A solver that refuses the configuration never makes it.
            if o.n_cb == 0 {
                return vec![viol(P, "no_initial_callback", format!("the solver returned Err({msg}) for a valid configuration without ever calling SolOut"))];
            }
        }
        if o.verdict != Verdict::Returned {
            // hang / panic / config error: owned by C04, not a protocol verdict
            cov.blocked += 1;
            cov.bump(&format!("blocked.{}", o.verdict.name()));
            return vec![];
        }
        let res = o.res.as_ref().unwrap();
        let delivered: Vec<&(usize, Action)> = sc.actions.iter().filter(|(k, _)| *k < o.n_cb).collect();
        if !delivered.is_empty() {
            cov.nontrivial.insert(o.fp);
            for (_, a) in &delivered {
                cov.bump(match a {
                    Action::Interrupt => "delivered.interrupt",
                    Action::ModIdentity => "delivered.mod_identity",
                    Action::ModScale(_) => "delivered.mod_scale",
                    Action::ModPerturb(_) => "delivered.mod_perturb",
                    Action::XOut(_) => "delivered.xout",
                });
            }
            if cov.samples.len() < 4 {
                cov.sample(serde_json::json!({"scenario": sc.summary(), "callbacks": o.n_cb, "status": status_name(res.status), "S1_crossings": o.st.ode_calls}));
            }
        }
        let mut v = check_protocol(P, sc, &o, &ProtoOpts { structure: true, interpolant: true });

        // --- Interrupt: stops immediately, UserInterrupt, nothing crosses any seam afterwards
        if let Some((k, _)) = sc.actions.iter().find(|(k, a)| *a == Action::Interrupt && *k < o.n_cb) {
            // only the first delivered interrupt matters
            let k = *k;
            if res.status != Status::UserInterrupt {
                v.push(viol(P, "interrupt_status", format!("Interrupt returned at callback {k} but status is {}", status_name(res.status))));
            }
            if o.n_cb != k + 1 {
                v.push(viol(P, "interrupt_more_callbacks", format!("Interrupt returned at callback {k} but {} callbacks were made in total", o.n_cb)));
            }
            if k < o.cbs.len() && o.st.seam_seq != o.cbs[k].seam_seq {
                v.push(viol(
                    P,
                    "interrupt_more_evaluations",
                    format!("Interrupt returned at callback {k} but {} further seam crossings (ode/jac/events) followed", o.st.seam_seq - o.cbs[k].seam_seq),
                ));
            }
        } else if res.status == Status::UserInterrupt {
            v.push(viol(P, "spurious_interrupt", "status UserInterrupt although no callback returned Interrupt".into()));
        }

        // --- ModifiedSolution: the very next crossing is ode(x_k, w) (BDF: then jac(x_k, w))
        if !o.st.truncated {
            for (k, a) in sc.actions.iter() {
                if *k >= o.cbs.len() || matches!(a, Action::Interrupt | Action::XOut(_)) {
                    continue;
                }
                if sc.actions.iter().any(|(k2, a2)| *a2 == Action::Interrupt && k2 < k) {
                    continue;
                }
                let cb = &o.cbs[*k];
                let next = cb.seam_seq + 1;
                let n = sc.prob.dim();
                let rec = o.st.odes.iter().find(|r| r.seq == next);
                let ok = match rec {
                    Some(r) => {
                        let y = &o.st.arena[r.off..r.off + n];
                        !r.in_jac && r.t.to_bits() == cb.x.to_bits() && bits_eq(y, &cb.y_out)
                    }
                    None => false,
                };
                if !ok {
                    v.push(viol(
                        P,
                        "modified_reeval",
                        format!(
                            "ModifiedSolution at callback {k} (x={:e}, written state {:?}): the next seam crossing is not ode(x, written state); it is {}",
                            cb.x,
                            cb.y_out,
                            match rec {
                                Some(r) => format!("ode(t={:e}, y={:?})", r.t, &o.st.arena[r.off..r.off + n]),
                                None => "not an ode call (or nothing)".to_string(),
                            }
                        ),
                    ));
                    break;
                }
                if sc.method == Meth::BDF {
                    let jr = o.st.jacs.iter().find(|r| r.seq == next + 1);
                    let okj = match jr {
                        Some(r) => r.t.to_bits() == cb.x.to_bits() && bits_eq(&o.st.arena[r.off..r.off + n], &cb.y_out),
                        None => false,
                    };
                    if !okj {
                        v.push(viol(P, "modified_rejac", format!("BDF: ModifiedSolution at callback {k}: the Jacobian was not re-evaluated at (x, written state) right after the derivative")));
                        break;
                    }
                }
            }
        }

        // --- twin: identity-only plan is a no-op (all but BDF)
        let all_identity = !sc.actions.is_empty() && sc.actions.iter().all(|(_, a)| *a == Action::ModIdentity);
        if all_identity && sc.method != Meth::BDF {
            let mut t = sc.clone();
            t.actions.clear();
            let u = run_low(&t, false);
            cov.note_low(&u);
            cov.bump("twin.identity");
            if u.verdict == Verdict::Returned {
                let ur = u.res.as_ref().unwrap();
                let same = u.n_cb == o.n_cb
                    && ur.status == res.status
                    && u.cbs.iter().zip(o.cbs.iter()).all(|(a, b)| a.x.to_bits() == b.x.to_bits() && bits_eq(&a.y_in, &b.y_in));
                if !same {
                    let i = u.cbs.iter().zip(o.cbs.iter()).position(|(a, b)| !(a.x.to_bits() == b.x.to_bits() && bits_eq(&a.y_in, &b.y_in)));
                    v.push(viol(
                        P,
                        "identity_noop",
                        format!("returning ModifiedSolution with an unchanged state altered the run: callbacks {} vs {}, status {} vs {}, first differing callback {:?}", o.n_cb, u.n_cb, status_name(res.status), status_name(ur.status), i),
                    ));
                }
            }
        }

        // --- twin: ControlFlag::XOut asks for output only - the integration itself (accepted steps,
        // states, status) is the one obtained when the callback returns Continue instead
        if sc.actions.iter().any(|(_, a)| matches!(a, Action::XOut(_))) {
            let mut t = sc.clone();
            t.actions.retain(|(_, a)| !matches!(a, Action::XOut(_)));
            let u = run_low(&t, false);
            cov.note_low(&u);
            cov.bump("twin.xout");
            if u.verdict == Verdict::Returned {
                let ur = u.res.as_ref().unwrap();
                let same = u.n_cb == o.n_cb
                    && ur.status == res.status
                    && u.cbs.iter().zip(o.cbs.iter()).all(|(a, b)| a.x.to_bits() == b.x.to_bits() && bits_eq(&a.y_in, &b.y_in));
                if !same {
                    let i = u.cbs.iter().zip(o.cbs.iter()).position(|(a, b)| !(a.x.to_bits() == b.x.to_bits() && bits_eq(&a.y_in, &b.y_in)));
                    v.push(viol(
                        P,
                        "xout_perturbs",
                        format!("returning XOut instead of Continue altered the integration: callbacks {} vs {}, status {} vs {}, first differing callback {:?}", o.n_cb, u.n_cb, status_name(res.status), status_name(ur.status), i),
                    ));
                }
            }
        }

        // --- twin: scaling by powers of two on a linear homogeneous problem with atol = 0
        let all_scale = !sc.actions.is_empty() && sc.actions.iter().all(|(_, a)| matches!(a, Action::ModScale(f) if is_pow2(*f)));
        let dbl_ok = sc.prob.linear_homogeneous() && sc.atol.iter().all(|a| *a == 0.0) && all_scale;
        if dbl_ok && !(sc.method == Meth::BDF && sc.jac == JacMode::Fd) && !(sc.method == Meth::RADAU && (sc.actions.len() != 1 || sc.jac == JacMode::Fd)) {
            let mut t = sc.clone();
            for a in t.actions.iter_mut() {
                a.1 = Action::ModIdentity;
            }
            let u = run_low(&t, false);
            cov.note_low(&u);
            cov.bump("twin.doubling");
            // power-of-two scaling is exact only in the normal range: block runs that get near
            // underflow/overflow (differences of order 5 live ~1e-40 below the state)
            let in_range = |cbs: &Vec<crate::env::CbRec>| cbs.iter().all(|c| c.y_in.iter().all(|y| y.abs() > 1e-150 && y.abs() < 1e150));
            let zero_prob = matches!(sc.prob, crate::problems::Problem::Zero { .. });
            if u.verdict == Verdict::Returned && !zero_prob && !(in_range(&u.cbs) && in_range(&o.cbs)) {
                cov.bump("twin.doubling_out_of_range_skipped");
            } else if u.verdict == Verdict::Returned {
                let ur = u.res.as_ref().unwrap();
                if sc.method == Meth::RADAU {
                    if ur.status == Status::Success && res.status == Status::Success {
                        let f = match &sc.actions[0].1 {
                            Action::ModScale(f) => *f,
                            _ => 1.0,
                        };
                        // the final callback reports the state *before* its own action
                        let effective = sc.actions[0].0 + 1 < o.n_cb;
                        let fac = if effective { f } else { 1.0 };
                        let ya = &o.cbs.last().unwrap().y_in;
                        let yb: Vec<f64> = u.cbs.last().unwrap().y_in.iter().map(|x| x * fac).collect();
                        // two correct runs differ by their own global errors: Radau works with the
                        // transformed tolerance 0.1*rtol^(2/3), and perturbations of a linear problem
                        // grow at most like the state itself, hence the run-wide maximum norm
                        let scale = o.cbs.iter().chain(u.cbs.iter()).fold(0.0f64, |m, c| m.max(norm_inf(&c.y_in) * fac.max(1.0)));
                        let tol_eff = sc.max_rtol().max(0.1 * sc.max_rtol().powf(2.0 / 3.0));
                        let d = max_abs_diff(ya, &yb);
                        if d > 200.0 * tol_eff * scale {
                            v.push(viol(P, "doubling_radau", format!("Radau: scaling the state by {f} at callback {} did not scale the final state: {:?} vs {:?} (diff {:e})", sc.actions[0].0, ya, yb, d)));
                        }
                    }
                } else {
                    let mut fac = 1.0;
                    let mut bad = None;
                    if u.n_cb != o.n_cb || ur.status != res.status {
                        bad = Some(format!("callbacks {} vs {}, status {} vs {}", o.n_cb, u.n_cb, status_name(res.status), status_name(ur.status)));
                    } else {
                        for i in 0..o.cbs.len().min(u.cbs.len()) {
                            let a = &o.cbs[i];
                            let b = &u.cbs[i];
                            let exp: Vec<f64> = b.y_in.iter().map(|x| x * fac).collect();
                            if a.x.to_bits() != b.x.to_bits() || !bits_eq(&a.y_in, &exp) {
                                bad = Some(format!("callback {i}: x {:e} vs {:e}, y {:?} vs expected {:?} (factor {fac})", a.x, b.x, a.y_in, exp));
                                break;
                            }
                            if let Some((_, Action::ModScale(f))) = sc.actions.iter().find(|(k, _)| *k == i) {
                                fac *= *f;
                            }
                        }
                    }
                    if let Some(b) = bad {
                        v.push(viol(P, "doubling", format!("linear homogeneous problem, atol=0: scaling the state by a power of two did not scale everything that follows exactly: {b}")));
                    }
                }
            }
        }
        v
    }
}
