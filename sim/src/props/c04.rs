//! C04 — solve_ivp always terminates, never panics, and fails honestly.
//!
//! Faults are injected at the RHS seam (S1) at arbitrary crossing indices; termination is a
//! bounded-liveness verdict of the deterministic tick watchdog.

use crate::catalogue;
use crate::core::*;
use crate::gen::*;
use crate::rng::{mix, Rng};
use crate::run::*;
use crate::scenario::*;
use crate::util::*;
use ivp::prelude::Status;

pub struct C04;

const P: &str = "C04";
const CHUNK: u64 = 64;

#[derive(Clone)]
struct Base {
    k: usize,
    m: Meth,
    backward: bool,
    kind: FaultKind,
    /// 0 = transient At(n), 1 = persistent From(n), 2 = burst(n,4)
    dur: u8,
    jac: JacMode,
}

fn bases(tier: Tier) -> Vec<Base> {
    let mut v = Vec::new();
    match tier {
        Tier::Quick => {
            for k in [1usize, 2, 7] {
                for m in ALL_METHODS {
                    if k == 7 && !m.implicit() {
                        continue;
                    }
                    for backward in [false, true] {
                        if backward && k != 1 {
                            continue;
                        }
                        for kind in [FaultKind::NanAll, FaultKind::PosInf, FaultKind::Huge, FaultKind::Glitch] {
                            for dur in [0u8, 1] {
                                let jac = if k == 7 { JacMode::Fd } else { JacMode::Analytic };
                                v.push(Base { k, m, backward, kind, dur, jac });
                            }
                        }
                    }
                }
            }
        }
        Tier::Thorough => {
            for k in [1usize, 2, 3, 4, 5, 6, 7, 8, 11] {
                for m in ALL_METHODS {
                    for backward in [false, true] {
                        for kind in ALL_FAULT_KINDS {
                            for dur in [0u8, 1, 2] {
                                let jac = if k == 7 && backward { JacMode::Fd } else { JacMode::Analytic };
                                v.push(Base { k, m, backward, kind, dur, jac });
                            }
                        }
                    }
                }
            }
        }
    }
    v
}

fn n_sampled_chunks(tier: Tier) -> u64 {
    match tier {
        Tier::Quick => 4_000,
        Tier::Thorough => 120_000,
    }
}

/// accepted-step probe on the events seam (never crosses zero)
fn probe_event() -> EventSpec {
    EventSpec { kind: EvKind::Const, scale: 1.0, dir: Dir::All, terminal: None }
}

/// A persistent *finite* fault is simply another ODE. The simulated environment keeps its
/// Jacobian callback consistent with the function it actually serves: for implicit methods such
/// plans use the finite-difference Jacobian (which differences the faulty function). An analytic
/// Jacobian of the healthy problem would be a second, unrelated lie whose legitimate cost
/// (millions of tiny steps) is unbounded and says nothing about termination.
fn consistent_jacobian(sc: &mut Scenario) {
    let persistent_finite = sc
        .faults
        .iter()
        .any(|f| !f.kind.non_finite() && !matches!(f.trigger, Trigger::At(_)));
    if sc.method.implicit() && persistent_finite {
        sc.jac = JacMode::Fd;
    }
}

fn expand_base(b: &Base) -> Vec<Scenario> {
    let mut sc = catalogue::k(b.k, b.m, b.backward);
    sc.jac = b.jac;
    sc.entry = Entry::High;
    sc.events = vec![probe_event()];
    // crossing count of the fault-free run of exactly this configuration
    let n = {
        let o = run_high(&sc, false);
        o.st.ode_calls.min(6000)
    };
    let mut out = Vec::with_capacity(n as usize + 4);
    for i in 1..=(n + 4) {
        let mut s = sc.clone();
        let trig = match b.dur {
            0 => Trigger::At(i),
            1 => Trigger::From(i),
            _ => Trigger::Burst(i, 4),
        };
        // a persistent finite glitch is simply another ODE: keep its stiffness bounded so that the
        // legitimate work stays far below the watchdog; a transient one may be arbitrarily wild
        let mag = if b.dur == 1 { 8.0 } else { 1e6 };
        s.faults = vec![FaultSpec { trigger: trig, kind: b.kind, comp: 0, mag }];
        consistent_jacobian(&mut s);
        out.push(s);
    }
    out
}

fn intrinsic_cases(tier: Tier) -> Vec<Scenario> {
    let mut out = Vec::new();
    let ks: &[usize] = match tier {
        Tier::Quick => &[9, 10, 11, 12],
        Tier::Thorough => &[1, 2, 3, 4, 5, 6, 7, 8, 9, 10, 11, 12],
    };
    for &k in ks {
        for m in ALL_METHODS {
            for backward in [false, true] {
                for entry in [Entry::High, Entry::Low] {
                    for budget in [None, Some(50usize)] {
                        let mut sc = catalogue::k(k, m, backward);
                        sc.entry = entry;
                        sc.max_steps = budget;
                        if entry == Entry::High {
                            sc.events = vec![probe_event()];
                        }
                        out.push(sc);
                    }
                }
            }
        }
    }
    out
}

fn sampled(rng: &mut Rng) -> Scenario {
    if rng.bool(0.25) {
        // a quarter of the swarm is borrowed from the other campaigns' generators: they place
        // requested times, events, callbacks and step bounds relative to the step grid (a sample
        // within 1e-12 of a step end with a terminal event right behind it, ...). Those campaigns
        // count a run that exceeds the watchdog as blocked - termination is judged here, so the
        // configurations they reach have to be reached here as well.
        let c08 = rng.bool(0.5);
        let sc = match rng.int(0, 8) {
            0 => super::c03::sampled(rng),
            1 => super::c05::sampled(rng),
            2 => super::c06::sampled(rng),
            3 => super::c0809::sampled(rng, c08),
            4 => super::c10::sampled(rng),
            5 => super::c11::sampled(rng),
            6 => super::c12::sampled(rng),
            7 => super::c18::sampled(rng),
            _ => super::c19::sampled(rng),
        };
        // (C04 speaks of finite configurations)
        if sc.xend.is_finite() {
            return sc;
        }
    }
    let m = gen_method(rng);
    let entry = if rng.bool(0.75) { Entry::High } else { Entry::Low };
    let mut sc = gen_base(rng, m, ProbClass::Hostile, entry);
    let dim = sc.prob.dim();
    if rng.bool(0.3) {
        sc.max_steps = Some(rng.int(1, 400));
    }
    if entry == Entry::High {
        let r = rng.f();
        if r < 0.5 {
            sc.events = vec![probe_event()];
        } else if r < 0.8 {
            // real event functions (some terminal) next to the faults: the root search then works on
            // interpolants of steps that saw a non-finite or absurd derivative, and on states that
            // blow up (thresholds far above the start are crossed on the way to infinity)
            let ne = rng.int(1, 3);
            let span = sc.span();
            for _ in 0..ne {
                let c = sc.x0 + (sc.xend - sc.x0) * rng.f();
                let kind = match rng.int(0, 3) {
                    0 => EvKind::Time { c },
                    1 => EvKind::Sin { w: rng.uni(2.0, 30.0) / span, phi: c },
                    2 => EvKind::State { i: rng.int(0, dim - 1), c: sc.y0[0] * rng.uni(0.2, 1.2) },
                    _ => EvKind::State { i: rng.int(0, dim - 1), c: rng.sign() * rng.logu(1.0, 1e12) },
                };
                let terminal = if rng.bool(0.3) { Some(rng.int(1, 2)) } else { None };
                sc.events.push(EventSpec { kind, scale: rng.sign() * rng.logu(0.1, 10.0), dir: *rng.pick(&[Dir::All, Dir::Pos, Dir::Neg]), terminal });
            }
        }
        if rng.bool(0.25) {
            let n = rng.int(1, 30);
            let mut te: Vec<f64> = (0..n).map(|_| sc.x0 + (sc.xend - sc.x0) * rng.f()).collect();
            te.sort_by(|a, b| a.partial_cmp(b).unwrap());
            if sc.xend < sc.x0 {
                te.reverse();
            }
            sc.t_eval = Some(te);
        }
        sc.dense = rng.bool(0.3);
    } else {
        sc.knobs = gen_knobs(rng, m);
    }
    if rng.bool(0.2) && m != Meth::RK4 {
        sc.max_step = Some(if rng.bool(0.2) { f64::INFINITY } else { sc.span() * rng.logu(0.01, 2.0) });
    }
    // the rest of the valid configuration space: min_step, first_step, tiny intervals
    if m.implicit() && rng.bool(0.2) {
        sc.min_step = Some(sc.span() * rng.logu(1e-8, 1e-2));
    }
    if m != Meth::RK4 && rng.bool(0.15) {
        sc.first_step = Some(sc.dir() * sc.span() * rng.logu(1e-6, 2.0));
    }
    if rng.bool(0.05) {
        let d = sc.dir();
        sc.xend = sc.x0 + d * rng.logu(1e-12, 1e-6);
        if m == Meth::RK4 {
            sc.first_step = None;
        }
        if let Some(te) = &mut sc.t_eval {
            let (x0, xend) = (sc.x0, sc.xend);
            let n = te.len().max(1) as f64;
            for (i, t) in te.iter_mut().enumerate() {
                *t = x0 + (xend - x0) * (i as f64 + 0.5) / n;
            }
        }
    }
    // fault plan: a random subset of kinds is enabled per run
    let nf = match rng.int(0, 9) {
        0 => 0,
        1..=6 => 1,
        _ => 2,
    };
    if nf > 0 {
        // pilot for phase-biased placement (a placement aid only)
        let p = pilot(&sc);
        let (ncross, cbs): (u64, Vec<u64>) = match &p {
            Some(p) => (p.n_ode.max(1), p.cb_ode_calls.clone()),
            None => (200, vec![]),
        };
        for _ in 0..nf {
            let kind = gen_fault_kind(rng);
            let n = match rng.int(0, 7) {
                0 => 1,                                       // the initial f(x0,y0)
                1 => 2,                                       // hinit probe / first stage
                2 if !cbs.is_empty() => *rng.pick(&cbs) + 1,  // first crossing of a step
                3 if !cbs.is_empty() => (*rng.pick(&cbs)).max(1), // last crossing before a callback (FSAL)
                4 if cbs.len() >= 2 => {
                    // inside the last step
                    let a = cbs[cbs.len() - 2];
                    rng.int(a as usize + 1, ncross.max(a + 1) as usize) as u64
                }
                5 => ncross + rng.int(0, 3) as u64,           // the very end / never
                _ => rng.int(1, ncross as usize + 4) as u64,
            };
            let trig = match rng.int(0, 5) {
                0 | 1 => Trigger::At(n),
                2 | 3 => Trigger::From(n),
                4 => Trigger::Burst(n, rng.int(2, 8) as u64),
                _ => Trigger::AfterTime(sc.x0 + (sc.xend - sc.x0) * rng.uni(0.0, 1.0)),
            };
            let mut f = make_fault(rng, trig, kind, dim);
            let already_persistent_finite = sc
                .faults
                .iter()
                .any(|g| !g.kind.non_finite() && !matches!(g.trigger, Trigger::At(_)));
            if already_persistent_finite && !f.kind.non_finite() {
                // two persistent finite glitches would compound their stiffness
                f.trigger = Trigger::At(n);
            }
            if !matches!(f.trigger, Trigger::At(_)) {
                // persistent / burst finite glitches: bounded magnitude (see expand_base)
                f.mag = f.mag.signum() * f.mag.abs().min(8.0).max(1.5);
            }
            sc.faults.push(f);
        }
    }
    consistent_jacobian(&mut sc);
    sc
}

/// A run that exceeds the watchdog is re-executed once with 8x the budget: an infinite loop never
/// finishes at any budget, a merely long run does. When the fault plan contains a *finite* fault
/// (1e300, glitch) the served function is a legitimate ODE whose cost nobody bounds (one absurd
/// but finite derivative can throw the state to 1e68, where the problem is astronomically stiff):
/// there the verdict is "hang" only if the larger budget brings no progress at all in the
/// independent variable.
#[derive(PartialEq)]
enum Retry {
    Finished,
    Progressing,
    Stuck,
}

fn retry_with_larger_budget(sc: &Scenario, extent_before: f64) -> Retry {
    crate::run::RETRIED.fetch_add(1, std::sync::atomic::Ordering::Relaxed);
    let (verdict, st) = with_watchdog_scale(8, || match sc.entry {
        Entry::High => {
            let o = run_high(sc, false);
            (o.verdict, o.st)
        }
        Entry::Low => {
            let o = run_low(sc, false);
            (o.verdict, o.st)
        }
    });
    if !matches!(verdict, Verdict::Hang { .. }) {
        return Retry::Finished;
    }
    let finite_fault = sc.faults.iter().any(|f| !f.kind.non_finite());
    if finite_fault && extent(sc, &st) > extent_before * (1.0 + 1e-9) {
        return Retry::Progressing;
    }
    crate::run::STUCK.fetch_add(1, std::sync::atomic::Ordering::Relaxed);
    Retry::Stuck
}

/// how far from x0 the integration currently works: the smallest distance from x0 among the 16 most
/// recent RHS abscissae (a loop stuck at one x, with a fixed or a shrinking step, does not move it)
fn extent(sc: &Scenario, st: &crate::env::SimState) -> f64 {
    let n = st.recent_n.min(16) as usize;
    st.recent_t[..n].iter().fold(f64::INFINITY, |m, t| m.min((t - sc.x0).abs()))
}

fn check_times_finite(t: &[f64]) -> bool {
    t.iter().all(|x| x.is_finite())
}

impl Prop for C04 {
    fn id(&self) -> &'static str {
        P
    }
    fn level(&self) -> &'static str {
        "fault_enumeration"
    }
    fn rule(&self) -> String {
        "enumerated: for every catalogue base (problem K x method x fault kind x duration [x direction]) a fault at EVERY S1 crossing index 1..N+4 of the fault-free run, plus the intrinsic cases (blow-up, discontinuity, stiff-for-explicit) without injected fault; sampled: swarm of random problems/options/knobs with 0-2 faults at phase-biased crossings or from a time on. A case is non-trivial when an injected fault actually fired or the problem is intrinsically hostile; distinct = distinct run fingerprint (hash of the complete seam log and the returned result).".into()
    }
    fn assumptions(&self) -> Vec<String> {
        vec![
            "termination is decided by a deterministic tick watchdog (5e6 seam crossings + loop-head ticks); a run that would return only after more work is reported as a hang".into(),
            "faults are injected at the right-hand side only (the property speaks of the RHS); Jacobian and event callbacks stay healthy".into(),
            "the loop-head tick hooks (feature verif) are the only instrumentation of the code under test".into(),
        ]
    }
    fn n_items(&self, tier: Tier) -> u64 {
        bases(tier).len() as u64 + 1 + n_sampled_chunks(tier)
    }
    fn exhaustive(&self, _tier: Tier) -> bool {
        true
    }
    fn n_enumerated_items(&self, tier: Tier) -> u64 {
        bases(tier).len() as u64 + 1
    }
    fn expand(&self, item: u64, tier: Tier, seed: u64) -> Vec<Scenario> {
        let bs = bases(tier);
        if (item as usize) < bs.len() {
            return expand_base(&bs[item as usize]);
        }
        if item as usize == bs.len() {
            return intrinsic_cases(tier);
        }
        let chunk = item - bs.len() as u64 - 1;
        (0..CHUNK)
            .map(|j| {
                let mut rng = Rng::new(mix(seed, P, chunk * CHUNK + j));
                sampled(&mut rng)
            })
            .collect()
    }

    fn check(&self, sc: &Scenario, cov: &mut Cov) -> Vec<Violation> {
        let mut v = Vec::new();
        let hostile = sc.prob.intrinsic_failure() || matches!(sc.prob, crate::problems::Problem::Disc { .. });
        match sc.entry {
            Entry::High => {
                let probe = sc.events.len() == 1 && sc.events[0].kind == EvKind::Const;
                let o = run_high(sc, probe);
                cov.note_high(&o);
                let fired: u64 = o.st.fired.iter().sum();
                if fired > 0 || hostile {
                    cov.nontrivial.insert(o.fp);
                }
                if cov.samples.len() < 4 && fired > 0 {
                    cov.sample(serde_json::json!({
                        "scenario": sc.summary(),
                        "outcome": match &o.sol { Some(s) => format!("{} with {} samples, {} S1 crossings, faults fired {}", status_name(s.status), s.t.len(), o.st.ode_calls, fired), None => format!("{:?}", o.verdict) },
                    }));
                }
                match &o.verdict {
                    Verdict::Panic(msg) => v.push(viol(P, "panic", format!("solve_ivp panicked: {msg}"))),
                    Verdict::Hang { ticks, site } => match retry_with_larger_budget(sc, extent(sc, &o.st)) {
                        Retry::Finished => cov.bump("slow_but_terminating"),
                        Retry::Progressing => cov.bump("finite_fault_long_run_still_progressing"),
                        Retry::Stuck => v.push(viol(
                            P,
                            "hang",
                            format!("solve_ivp did not return within {} ticks (8x the watchdog of {ticks}; last tick site {site}, {} S1 crossings)", 8 * (ticks - 1), o.st.ode_calls),
                        )),
                    },
                    Verdict::Error(_) => cov.bump("outcome.err"),
                    Verdict::Returned => {
                        let s = o.sol.as_ref().unwrap();
                        if fired > 0 {
                            if s.status == Status::Success {
                                cov.bump("outcome.recovered_or_unaffected");
                            } else {
                                cov.bump("outcome.gave_up");
                            }
                        }
                        if s.t.len() != s.y.len() {
                            v.push(viol(P, "shape", format!("len(t)={} != len(y)={}", s.t.len(), s.y.len())));
                        }
                        if s.status == Status::Success && sc.method.error_controlled() {
                            let bad_y = s.y.iter().position(|y| !all_finite(y));
                            let bad_e = s.y_events.iter().flatten().any(|y| !all_finite(y))
                                || s.t_events.iter().flatten().any(|t| !t.is_finite());
                            if let Some(i) = bad_y {
                                v.push(viol(P, "success_nonfinite", format!("status Success but y[{i}] = {:?} at t = {:e}", s.y[i], s.t[i])));
                            } else if !check_times_finite(&s.t) || bad_e {
                                v.push(viol(P, "success_nonfinite", "status Success but a reported time or event is non-finite".into()));
                            }
                        }
                        if s.status != Status::Success && !check_times_finite(&s.t) {
                            v.push(viol(P, "prefix_nonfinite_time", format!("status {} with a non-finite sample time", status_name(s.status))));
                        }
                        // conservation: every accepted step seen on the events seam is among the
                        // returned samples (in order), and nothing else is.
                        if probe && o.st.truncated {
                            cov.bump("probe.log_truncated");
                        }
                        if probe && !o.st.truncated && sc.t_eval.is_none() && sc.first_step.is_none() {
                            let n = sc.prob.dim();
                            let mut j = 0usize; // index into sol
                            let mut ok = true;
                            let mut why = String::new();
                            let mut last_kept: Option<f64> = None;
                            for ev in &o.st.evs {
                                let yv = &o.st.arena[ev.off..ev.off + n];
                                if j < s.t.len() && s.t[j].to_bits() == ev.t.to_bits() && bits_eq(&s.y[j], yv) {
                                    last_kept = Some(ev.t);
                                    j += 1;
                                } else if last_kept.map(|l| (l - ev.t).abs() <= 1e-12).unwrap_or(false) {
                                    // documented duplicate-suppression window of the handler
                                    cov.bump("probe.dedupe_window_skip");
                                } else {
                                    ok = false;
                                    why = format!("accepted step at t={:e} (seen on the events seam) is missing from the returned samples (position {j} of {})", ev.t, s.t.len());
                                    break;
                                }
                            }
                            if ok && j != s.t.len() {
                                ok = false;
                                why = format!("returned {} samples but only {} accepted steps were seen", s.t.len(), j);
                            }
                            if !ok {
                                v.push(viol(P, "samples_lost", why));
                            }
                        }
                    }
                }
            }
            Entry::Low => {
                let o = run_low(sc, false);
                cov.note_low(&o);
                let fired: u64 = o.st.fired.iter().sum();
                if fired > 0 || hostile {
                    cov.nontrivial.insert(o.fp);
                }
                match &o.verdict {
                    Verdict::Panic(msg) => v.push(viol(P, "panic", format!("solver panicked: {msg}"))),
                    Verdict::Hang { ticks, site } => match retry_with_larger_budget(sc, extent(sc, &o.st)) {
                        Retry::Finished => cov.bump("slow_but_terminating"),
                        Retry::Progressing => cov.bump("finite_fault_long_run_still_progressing"),
                        Retry::Stuck => v.push(viol(
                            P,
                            "hang",
                            format!("solver did not return within {} ticks (8x the watchdog of {ticks}; last tick site {site}, {} S1 crossings)", 8 * (ticks - 1), o.st.ode_calls),
                        )),
                    },
                    Verdict::Error(_) => cov.bump("outcome.err"),
                    Verdict::Returned => {
                        let r = o.res.as_ref().unwrap();
                        if r.status == Status::Success && sc.method.error_controlled() {
                            if let Some(c) = o.cbs.iter().find(|c| !all_finite(&c.y_in) || !c.x.is_finite()) {
                                v.push(viol(P, "success_nonfinite", format!("status Success but callback state {:?} at x = {:e}", c.y_in, c.x)));
                            }
                        }
                    }
                }
            }
        }
        v
    }
}
