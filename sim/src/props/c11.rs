//! C11 — max_step, first_step and max_steps are honoured.
//! The step budget is a crash after N steps: the oracle is the bit-identical prefix of the
//! un-budgeted twin. Step bounds are invariants over the recorded seam log.

use crate::catalogue;
use crate::core::*;
use crate::gen::*;
use crate::rng::{mix, Rng};
use crate::run::*;
use crate::scenario::*;
use crate::util::*;
use ivp::prelude::Status;

pub struct C11;
const P: &str = "C11";
const CHUNK: u64 = 64;

#[derive(Clone)]
struct Base {
    k: usize,
    m: Meth,
    backward: bool,
    /// 0 plain, 1 t_eval + events + dense
    opts: u8,
}

fn bases(tier: Tier) -> Vec<Base> {
    let mut v = Vec::new();
    let ks: &[usize] = match tier {
        Tier::Quick => &[1, 2],
        Tier::Thorough => &[1, 2, 4, 5, 7, 8],
    };
    for &k in ks {
        for m in ALL_METHODS {
            for backward in [false, true] {
                for opts in 0..2u8 {
                    if tier == Tier::Quick && backward && opts == 0 {
                        continue;
                    }
                    v.push(Base { k, m, backward, opts });
                }
            }
        }
    }
    v
}

fn n_sampled_chunks(tier: Tier) -> u64 {
    match tier {
        Tier::Quick => 3_000,
        Tier::Thorough => 120_000,
    }
}

fn lerp(a: f64, b: f64, th: f64) -> f64 {
    a + th * (b - a)
}

fn expand_base(b: &Base) -> Vec<Scenario> {
    let mut sc = catalogue::k(b.k, b.m, b.backward);
    sc.entry = Entry::High;
    if b.m != Meth::RK4 {
        sc.rtol = vec![sc.rtol[0].max(1e-6)];
    }
    if b.opts == 1 {
        if let Some(p) = pilot(&sc) {
            let mut te = Vec::new();
            for w in p.grid.windows(2) {
                te.push(lerp(w[0], w[1], 0.37));
                te.push(lerp(w[0], w[1], 0.81));
            }
            sc.t_eval = Some(te);
            let mid = lerp(sc.x0, sc.xend, 0.45);
            sc.events = vec![
                EventSpec { kind: EvKind::Sin { w: 9.0 / sc.span(), phi: mid }, scale: 1.0, dir: Dir::All, terminal: None },
                EventSpec { kind: EvKind::Time { c: lerp(sc.x0, sc.xend, 0.7) }, scale: -2.0, dir: Dir::All, terminal: None },
            ];
            sc.dense = true;
        }
    }
    let u = run_high(&sc, false);
    let nstep = match &u.sol {
        Some(s) => s.nstep.min(400),
        None => return vec![],
    };
    (1..=(nstep + 2))
        .map(|n| {
            let mut s = sc.clone();
            s.max_steps = Some(n);
            s
        })
        .collect()
}

fn gen_max_step(rng: &mut Rng, span: f64) -> f64 {
    match rng.int(0, 6) {
        0 => f64::INFINITY,
        1 => span * rng.uni(1.0, 3.0),
        2 => span / rng.int(1, 20) as f64,
        3 => span / rng.int(50, 500) as f64,
        _ => span * rng.logu(0.01, 1.0),
    }
}

pub(crate) fn sampled(rng: &mut Rng) -> Scenario {
    let m = gen_method(rng);
    let family = rng.int(0, 2);
    let entry = match family {
        0 => Entry::High,
        1 => Entry::Low,
        _ => {
            if rng.bool(0.5) {
                Entry::High
            } else {
                Entry::Low
            }
        }
    };
    let (mut sc, p) = gen_admissible(rng, m, ProbClass::Smooth, entry, 30_000, &mut |rng, sc| {
        if family >= 1 && sc.method != Meth::RK4 {
            let span = sc.span();
            if rng.bool(0.8) {
                sc.max_step = Some(gen_max_step(rng, span));
            }
            if rng.bool(0.6) {
                let cap = sc.max_step.unwrap_or(f64::INFINITY).min(span);
                sc.first_step = Some(cap * rng.logu(1e-4, 0.9));
            }
            if sc.method.implicit() && rng.bool(0.15) {
                // a valid lower bound below everything else
                let cap = sc.max_step.unwrap_or(f64::INFINITY).min(sc.first_step.map(|h| h.abs()).unwrap_or(f64::INFINITY)).min(span);
                sc.min_step = Some(cap * rng.logu(1e-4, 0.5));
            }
            if sc.entry == Entry::Low {
                sc.knobs = gen_knobs(rng, sc.method);
            }
        }
    });
    if family >= 1 && rng.bool(0.15) && sc.method != Meth::RK4 {
        // absolute scales: the code base contains absolute constants (1e-6 default first step,
        // 1e-12 matching slack, ...); put the interval and max_step near them
        let d = sc.dir();
        let span = rng.logu(1e-8, 1e-4);
        sc.xend = sc.x0 + d * span;
        sc.max_step = Some(span / rng.int(3, 60) as f64);
        sc.first_step = if rng.bool(0.3) { Some(sc.max_step.unwrap() * rng.logu(1e-2, 0.9)) } else { None };
        sc.min_step = None;
        sc.max_steps = None;
        return sc;
    }
    if family == 0 || (family == 2 && rng.bool(0.3)) {
        // budget twin; observers make the prefix comparison richer
        let nsteps = p.grid.len();
        sc.max_steps = Some(match rng.int(0, 4) {
            0 => 1,
            1 => nsteps + rng.int(0, 3),
            _ => rng.int(1, nsteps + 2),
        });
        if sc.entry == Entry::High {
            sc.dense = rng.bool(0.4);
            if rng.bool(0.4) {
                let mut te = Vec::new();
                for w in p.grid.windows(2) {
                    if rng.bool(0.6) {
                        te.push(lerp(w[0], w[1], rng.uni(0.0, 1.0)));
                    }
                }
                sc.t_eval = Some(te);
            }
            if rng.bool(0.4) {
                let c = lerp(sc.x0, sc.xend, rng.uni(0.05, 0.95));
                sc.events.push(EventSpec { kind: EvKind::Sin { w: rng.uni(3.0, 20.0) / sc.span(), phi: c }, scale: rng.sign(), dir: Dir::All, terminal: None });
            }
        }
    }
    sc
}

fn single_attempt_count(m: Meth) -> Option<u64> {
    match m {
        Meth::RK4 => Some(5),
        Meth::RK23 => Some(4),
        Meth::DOPRI5 => Some(7),
        Meth::DOP853 => Some(16),
        _ => None,
    }
}

fn is_prefix(a: &[f64], b: &[f64]) -> bool {
    a.len() <= b.len() && a.iter().zip(b).all(|(x, y)| x.to_bits() == y.to_bits())
}

fn is_prefix_vv(a: &[Vec<f64>], b: &[Vec<f64>]) -> bool {
    a.len() <= b.len() && a.iter().zip(b).all(|(x, y)| bits_eq(x, y))
}

impl C11 {
    fn check_budget(&self, sc: &Scenario, cov: &mut Cov, v: &mut Vec<Violation>) {
        let n = sc.max_steps.unwrap();
        let mut hs = sc.clone();
        hs.entry = Entry::High;
        hs.actions.clear();
        let b = run_high(&hs, false);
        cov.note_high(&b);
        let mut us = hs.clone();
        us.max_steps = None;
        let u = run_high(&us, false);
        cov.note_high(&u);
        if b.verdict != Verdict::Returned || u.verdict != Verdict::Returned {
            cov.blocked += 1;
            return;
        }
        let bs = b.sol.as_ref().unwrap();
        let us_ = u.sol.as_ref().unwrap();
        if bs.nstep > n + 1 {
            v.push(viol(P, "budget_exceeded", format!("max_steps={n} but the reported step count is {}", bs.nstep)));
        }
        let same = b.fp == u.fp;
        if bs.status == Status::NeedLargerNMax {
            cov.nontrivial.insert(b.fp);
            cov.bump("budget.hit");
            if cov.samples.len() < 4 {
                cov.sample(serde_json::json!({"scenario": sc.summary(), "budget": n, "unbudgeted_nstep": us_.nstep, "samples_B": bs.t.len(), "samples_U": us_.t.len()}));
            }
        } else {
            cov.bump("budget.not_hit");
        }
        // (at N == nstep of an unbudgeted run that ended abnormally the budget test at the loop head
        // and the solver's own give-up test compete for the same iteration: NeedLargerNMax is as
        // honest as the other status there, so only N > nstep must change nothing)
        let boundary = n == us_.nstep && us_.status != Status::Success && us_.status != Status::UserInterrupt;
        if boundary && !same {
            cov.bump("budget.equal_to_nstep_of_a_failed_run");
        }
        if n >= us_.nstep && !boundary {
            if !same {
                v.push(viol(
                    P,
                    "budget_changes_run",
                    format!("max_steps={n} is not smaller than the unbudgeted step count {} yet the run differs (status {} vs {}, {} vs {} samples)", us_.nstep, status_name(bs.status), status_name(us_.status), bs.t.len(), us_.t.len()),
                ));
            }
        } else if !same {
            if bs.status != Status::NeedLargerNMax {
                v.push(viol(P, "budget_status", format!("max_steps={n} < unbudgeted step count {}: the run differs from the unbudgeted one but status is {}", us_.nstep, status_name(bs.status))));
            }
            let mut bad = None;
            if !is_prefix(&bs.t, &us_.t) || !is_prefix_vv(&bs.y, &us_.y) {
                let i = bs.t.iter().zip(us_.t.iter()).position(|(a, c)| a.to_bits() != c.to_bits());
                bad = Some(format!("samples: {} returned, unbudgeted has {}, first differing index {:?}", bs.t.len(), us_.t.len(), i));
            }
            for j in 0..bs.t_events.len().min(us_.t_events.len()) {
                if !is_prefix(&bs.t_events[j], &us_.t_events[j]) || !is_prefix_vv(&bs.y_events[j], &us_.y_events[j]) {
                    bad = Some(format!("events of function {j}: {:?} vs unbudgeted {:?}", bs.t_events[j], us_.t_events[j]));
                }
            }
            if let Some(b) = bad {
                v.push(viol(P, "budget_prefix", format!("max_steps={n}: what is returned is not a bit-identical prefix of the unbudgeted run: {b}")));
            }
        }
    }

    fn check_bounds_low(&self, sc: &Scenario, cov: &mut Cov, v: &mut Vec<Violation>) {
        let mut ls = sc.clone();
        ls.max_steps = None;
        let o = run_low(&ls, true);
        cov.note_low(&o);
        if o.verdict != Verdict::Returned || o.st.truncated || o.cbs.len() != o.n_cb {
            cov.blocked += 1;
            return;
        }
        let res = o.res.as_ref().unwrap();
        let dt = crate::protocol::time_slack(sc, o.cbs.len());
        cov.nontrivial.insert(o.fp);
        if let Some(ms) = sc.max_step {
            let ms = ms.abs();
            cov.bump("bounds.max_step_runs");
            let last_idx = o.cbs.len() - 1;
            let mut clamped = 0u64;
            for (k, c) in o.cbs.iter().enumerate().skip(1) {
                if !c.has_interp {
                    continue;
                }
                let h = c.ip_h.abs();
                let lim = if k == last_idx && res.status == Status::Success { 1.01 * ms } else { ms };
                if h >= ms * (1.0 - 1e-12) {
                    clamped += 1;
                }
                if h > lim * (1.0 + 4.0 * EPS) {
                    v.push(viol(P, "max_step_exceeded", format!("accepted step {k} has |h|={:e} > max_step={:e}{}", h, ms, if k == last_idx { " (x1.01 for the final step)" } else { "" })));
                    break;
                }
            }
            cov.add("bounds.steps_at_max_step", clamped);
            // every S1 crossing stays within max_step of the current accepted point
            let mut ci = 0usize;
            for r in &o.st.odes {
                while ci + 1 < o.cbs.len() && o.cbs[ci + 1].seam_seq < r.seq {
                    ci += 1;
                }
                let xc = o.cbs[ci].x;
                if (r.t - xc).abs() > 1.01 * ms * (1.0 + 4.0 * EPS) + dt {
                    v.push(viol(P, "max_step_stage", format!("RHS evaluated at t={:e}, {:e} away from the current point x={:e}, with max_step={:e}", r.t, (r.t - xc).abs(), xc, ms)));
                    break;
                }
            }
        }
        if let Some(h0) = sc.first_step {
            let h0 = h0.abs();
            let cap = sc.max_step.map(|m| m.abs()).unwrap_or(f64::INFINITY).min(sc.span());
            // (an exactly singular iteration matrix at the first attempt makes RADAU/BDF halve the
            // step before any stage is evaluated: the RHS seam then shows the second trial)
            let lu_failed = o.sites[ivp::verif::RADAU_LU_SINGULAR] + o.sites[ivp::verif::BDF_LU_FAIL] > 0;
            if h0 <= 0.95 * cap && o.cbs.len() >= 2 && !lu_failed {
                cov.bump("bounds.first_step_runs");
                let seq1 = o.cbs[1].seam_seq;
                let pre: Vec<&crate::env::OdeRec> = o.st.odes.iter().filter(|r| r.seq <= seq1 && !r.in_jac).collect();
                let reach = pre.iter().fold(0.0f64, |m, r| m.max((r.t - sc.x0).abs()));
                if (reach - h0).abs() > dt + 4.0 * EPS * h0 {
                    v.push(viol(P, "first_trial_step", format!("first_step={:e} but the first trial step reaches {:e} from x0 (farthest RHS evaluation before the first accepted step)", h0, reach)));
                }
                if let Some(cnt) = single_attempt_count(sc.method) {
                    if pre.len() as u64 == cnt && sc.actions.is_empty() {
                        cov.bump("bounds.first_step_accepted");
                        if o.cbs[1].ip_h.abs().to_bits() != h0.to_bits() {
                            v.push(viol(P, "first_step_accepted", format!("the first trial step was accepted but its length is {:e}, not first_step={:e}", o.cbs[1].ip_h.abs(), h0)));
                        }
                    }
                }
                if o.cbs[1].ip_h.abs() > h0 * (1.0 + 4.0 * EPS) {
                    v.push(viol(P, "first_step_longer", format!("the first accepted step has length {:e} > first_step={:e}", o.cbs[1].ip_h.abs(), h0)));
                }
            }
            if sc.method == Meth::RK4 {
                let last_idx = o.cbs.len() - 1;
                for (k, c) in o.cbs.iter().enumerate().skip(1) {
                    if k == last_idx && res.status == Status::Success {
                        continue;
                    }
                    if c.ip_h.abs().to_bits() != h0.to_bits() {
                        v.push(viol(P, "rk4_fixed_step", format!("RK4 step {k} has length {:e}, first_step={:e}", c.ip_h.abs(), h0)));
                        break;
                    }
                }
            }
        }
    }

    fn check_bounds_high(&self, sc: &Scenario, cov: &mut Cov, v: &mut Vec<Violation>) {
        let mut hs = sc.clone();
        hs.max_steps = None;
        hs.t_eval = None;
        let o = run_high(&hs, true);
        cov.note_high(&o);
        if o.verdict != Verdict::Returned {
            cov.blocked += 1;
            return;
        }
        let s = o.sol.as_ref().unwrap();
        cov.nontrivial.insert(o.fp);
        if s.t.len() < 2 {
            return;
        }
        // first trial step, seen on the RHS seam: the stages of the first attempt reach exactly
        // x0 + first_step (explicit methods: their last stage; Radau: third collocation point; BDF:
        // the first corrector evaluation). Crossing 1 is f(x0, y0); Jacobian-internal calls excluded.
        if let Some(h0) = sc.first_step {
            let h0 = h0.abs();
            let cap = sc.max_step.map(|m| m.abs()).unwrap_or(f64::INFINITY).min(sc.span());
            let k = match sc.method {
                Meth::RK4 => 3,
                Meth::RK23 => 3,
                Meth::DOPRI5 => 6,
                Meth::DOP853 => 11,
                Meth::RADAU => 3,
                Meth::BDF => 1,
            };
            let calls: Vec<&crate::env::OdeRec> = o.st.odes.iter().filter(|r| !r.in_jac).collect();
            let lu_failed = o.sites[ivp::verif::RADAU_LU_SINGULAR] + o.sites[ivp::verif::BDF_LU_FAIL] > 0;
            if h0 <= 0.95 * cap && calls.len() > k && sc.faults.is_empty() && !lu_failed {
                let reach = calls[1..=k].iter().fold(0.0f64, |m, r| m.max((r.t - sc.x0).abs()));
                let dt0 = delta_t(sc, 0.0);
                if (reach - h0).abs() > dt0 + 4.0 * EPS * h0 {
                    v.push(viol(P, "first_trial_step_high", format!("first_step={:e} but the stages of the first trial step reach {:e} from x0", h0, reach)));
                }
                cov.bump("bounds.first_trial_step_high_checked");
            }
        }
        // max_step also bounds the automatically chosen first step: every RHS abscissa before the
        // first accepted step stays within 1.01*max_step of x0 (Jacobian-internal calls excluded)
        if let (Some(ms), true) = (sc.max_step, sc.events.is_empty()) {
            let ms = ms.abs();
            // accepted steps are not visible on the RHS seam; bound the first attempt only
            let calls: Vec<&crate::env::OdeRec> = o.st.odes.iter().filter(|r| !r.in_jac).collect();
            // crossings of the first attempt after f(x0,y0): the hinit probe (when the first step
            // is chosen automatically by RK23/DOPRI5/DOP853/BDF) plus the stages of one attempt
            let stages = match sc.method {
                Meth::RK4 => 3,
                Meth::RK23 => 3,
                Meth::DOPRI5 => 6,
                Meth::DOP853 => 11,
                Meth::RADAU => 3,
                Meth::BDF => 1,
            };
            let probe = if sc.first_step.is_none() && !matches!(sc.method, Meth::RK4 | Meth::RADAU) { 1 } else { 0 };
            let kmax = stages + probe;
            if calls.len() > kmax {
                let reach = calls[1..=kmax].iter().fold(0.0f64, |m, r| m.max((r.t - sc.x0).abs()));
                if reach > 1.01 * ms * (1.0 + 4.0 * EPS) + delta_t(sc, 0.0) {
                    v.push(viol(P, "max_step_first_attempt_high", format!("max_step={:e} but the first attempt evaluates the RHS {:e} away from x0", ms, reach)));
                }
            }
        }
        let dt = delta_t(sc, 0.0) * if sc.method == Meth::RK4 { s.t.len() as f64 } else { 1.0 };
        if let (Some(ms), None) = (sc.max_step, sc.first_step) {
            let ms = ms.abs();
            let last = s.t.len() - 2;
            for i in 0..s.t.len() - 1 {
                let d = (s.t[i + 1] - s.t[i]).abs();
                let lim = if i == last && s.status == Status::Success { 1.01 * ms } else { ms };
                if d > lim * (1.0 + 4.0 * EPS) + dt {
                    v.push(viol(P, "max_step_exceeded_high", format!("reported interval {i} has length {:e} > max_step={:e}", d, ms)));
                    break;
                }
            }
        }
        if let (Meth::RK4, Some(h0)) = (sc.method, sc.first_step) {
            // RK4: first_step is the fixed step: every reported interval but the closing one
            let h0 = h0.abs();
            if h0 <= 0.95 * sc.span() && hs.events.iter().all(|e| e.terminal.is_none()) {
                let last = s.t.len() - 2;
                for i in 0..s.t.len() - 1 {
                    if i == last && s.status == Status::Success {
                        continue;
                    }
                    let d = (s.t[i + 1] - s.t[i]).abs();
                    if (d - h0).abs() > dt + 4.0 * EPS * h0 {
                        v.push(viol(P, "rk4_fixed_step_high", format!("RK4 with first_step={:e}: reported interval {i} has length {:e}", h0, d)));
                        break;
                    }
                }
            }
        }
        if let Some(h0) = sc.first_step {
            let h0 = h0.abs();
            let cap = sc.max_step.map(|m| m.abs()).unwrap_or(f64::INFINITY).min(sc.span());
            if h0 <= 0.95 * cap && s.status == Status::Success && hs.events.iter().all(|e| e.terminal.is_none()) {
                let d = (s.t[1] - s.t[0]).abs();
                if (d - h0).abs() > dt + 4.0 * EPS * h0 {
                    v.push(viol(P, "first_interval_high", format!("first_step={:e} but the first reported interval is {:e}", h0, d)));
                }
            }
        }
    }
}

impl Prop for C11 {
    fn id(&self) -> &'static str {
        P
    }
    fn level(&self) -> &'static str {
        "fault_enumeration"
    }
    fn rule(&self) -> String {
        "enumerated: for every catalogue base (problem K x method x direction x {plain, t_eval+events+dense}) EVERY budget max_steps = 1..nstep+2 of the unbudgeted run (crash after N steps); sampled: swarm with random budgets, and step-bound runs with max_step in {inf, > span, exact divisors of the span, tiny, random} and first_step <= 0.9*min(max_step, span), low-level (exact h from the interpolant, complete S1 log) and high-level. Non-trivial = the budget actually ran out (status NeedLargerNMax) or a step-bound run completed its checks; distinct = distinct run fingerprint.".into()
    }
    fn assumptions(&self) -> Vec<String> {
        vec![
            "budget model does not prescribe how each solver counts steps: nstep <= max_steps+1; a budget not smaller than the unbudgeted step count must not change anything; otherwise either nothing changes or status is NeedLargerNMax and every reported list is a bitwise prefix".into(),
            "step lengths are read exactly from StepInterpolant::step_params in low-level callbacks; reconstructed times carry the absolute slack delta_t".into(),
            "the 'first trial step accepted' clause uses the per-method number of RHS calls of one attempt (RK4 5, RK23 4, DOPRI5 7, DOP853 16)".into(),
        ]
    }
    fn n_items(&self, tier: Tier) -> u64 {
        bases(tier).len() as u64 + n_sampled_chunks(tier)
    }
    fn exhaustive(&self, _tier: Tier) -> bool {
        true
    }
    fn n_enumerated_items(&self, tier: Tier) -> u64 {
        bases(tier).len() as u64
    }
    fn expand(&self, item: u64, tier: Tier, seed: u64) -> Vec<Scenario> {
        let bs = bases(tier);
        if (item as usize) < bs.len() {
            return expand_base(&bs[item as usize]);
        }
        let chunk = item - bs.len() as u64;
        (0..CHUNK)
            .map(|j| {
                let mut rng = Rng::new(mix(seed, P, chunk * CHUNK + j));
                sampled(&mut rng)
            })
            .collect()
    }

    fn check(&self, sc: &Scenario, cov: &mut Cov) -> Vec<Violation> {
        let mut v = Vec::new();
        if sc.max_steps.is_some() {
            self.check_budget(sc, cov, &mut v);
        }
        if sc.max_step.is_some() || sc.first_step.is_some() {
            match sc.entry {
                Entry::Low => self.check_bounds_low(sc, cov, &mut v),
                Entry::High => self.check_bounds_high(sc, cov, &mut v),
            }
        }
        v
    }
}
