//! C06 — dense output is continuous, matches the samples, and covers exactly the span; the same
//! for the per-step interpolant handed to SolOut. Histories are widened by injected rejections
//! (finite glitches), ModifiedSolution, step clamps, budgets and early stops.

use crate::core::*;
use crate::gen::*;
use crate::protocol::*;
use crate::rng::{mix, Rng};
use crate::run::*;
use crate::scenario::*;
use crate::util::*;
use ivp::error::{Error, InterpolationError};
use ivp::prelude::Status;

pub struct C06;
const P: &str = "C06";
const CHUNK: u64 = 64;

fn lerp(a: f64, b: f64, th: f64) -> f64 {
    a + th * (b - a)
}

fn n_sampled_chunks(tier: Tier) -> u64 {
    match tier {
        Tier::Quick => 5_000,
        Tier::Thorough => 150_000,
    }
}

fn next_toward(x: f64, dir: f64) -> f64 {
    // the neighbouring double in the given direction
    if x == 0.0 {
        return dir * f64::MIN_POSITIVE;
    }
    let b = x.to_bits();
    let up = (x > 0.0) == (dir > 0.0);
    f64::from_bits(if up { b + 1 } else { b - 1 })
}

pub(crate) fn sampled(rng: &mut Rng) -> Scenario {
    let m = gen_method(rng);
    let entry = if rng.bool(0.45) { Entry::Low } else { Entry::High };
    let (mut sc, p) = gen_admissible(rng, m, ProbClass::Smooth, entry, 20_000, &mut |rng, sc| {
        if sc.method != Meth::RK4 {
            if rng.bool(0.3) {
                sc.max_step = Some(sc.span() * rng.logu(0.01, 1.5));
            }
            if rng.bool(0.15) {
                sc.min_step = Some(sc.span() * rng.logu(1e-6, 1e-3));
            }
            if rng.bool(0.15) {
                // (often larger than the step the tolerance allows: the first attempt is rejected
                // and the output handler skips the shorter steps before x0 + first_step)
                sc.first_step = Some(sc.dir() * sc.span() * rng.logu(1e-5, 0.6));
            }
        }
        if sc.entry == Entry::Low {
            sc.knobs = gen_knobs(rng, sc.method);
        }
    });
    let n = sc.prob.dim();
    let ncb = p.grid.len();
    // forced rejections / post-rejection steps
    if rng.bool(0.4) {
        for _ in 0..rng.int(1, 4) {
            let k = rng.int(2, p.n_ode.max(2) as usize) as u64;
            // (a finite glitch forces a rejection; a non-finite value takes the solvers' retry paths)
            // (not for RK4: without error control a NaN is simply integrated into the state)
            let kind = if m.error_controlled() && rng.bool(0.3) { *rng.pick(&[FaultKind::NanAll, FaultKind::NanOne, FaultKind::PosInf]) } else { FaultKind::Glitch };
            let mut f = make_fault(rng, Trigger::At(k), kind, n);
            f.mag = rng.sign() * rng.logu(10.0, 1e5);
            sc.faults.push(f);
        }
    }
    match entry {
        Entry::Low => {
            for _ in 0..rng.int(0, 3) {
                let k = rng.int(0, ncb.saturating_sub(1));
                if sc.actions.iter().any(|(kk, _)| *kk == k) {
                    continue;
                }
                let a = match rng.int(0, 3) {
                    0 => Action::ModIdentity,
                    1 => Action::ModScale(*rng.pick(&[0.5, 2.0])),
                    _ => Action::ModPerturb(rng.sign() * rng.logu(1e-8, 1e-2)),
                };
                sc.actions.push((k, a));
            }
            if m != Meth::BDF && rng.bool(0.15) {
                // the solver's own dense output off; the callback asks for interpolants from some
                // abscissa on (ControlFlag::XOut) - those handed out must be valid too
                sc.low_dense = false;
                let k = rng.int(0, ncb.saturating_sub(1));
                if !sc.actions.iter().any(|(kk, _)| *kk == k) {
                    let xo = if rng.bool(0.35) { sc.xend } else { sc.x0 + (sc.xend - sc.x0) * rng.f() };
                    sc.actions.push((k, Action::XOut(xo)));
                }
            }
            sc.actions.sort_by_key(|a| a.0);
            if rng.bool(0.15) {
                sc.max_steps = Some(rng.int(1, ncb + 1));
            }
        }
        Entry::High => {
            sc.dense = rng.bool(0.9);
            if rng.bool(0.08) {
                sc.xend = sc.x0; // the degenerate zero-length run
                sc.first_step = None;
                sc.faults.clear();
            }
            if rng.bool(0.3) {
                let d = sc.dir();
                let mut te: Vec<f64> = (0..rng.int(1, 25)).map(|_| lerp(sc.x0, sc.xend, rng.f())).collect();
                if rng.bool(0.6) {
                    te.push(sc.xend);
                }
                te.sort_by(|a, b| (a * d).partial_cmp(&(b * d)).unwrap());
                sc.t_eval = Some(te);
            }
            match rng.int(0, 7) {
                0 => sc.max_steps = Some(rng.int(1, ncb + 1)),
                1 => {
                    let c = lerp(sc.x0, sc.xend, rng.uni(0.05, 0.95));
                    sc.events.push(EventSpec { kind: EvKind::Time { c }, scale: 1.0, dir: Dir::All, terminal: Some(1) });
                }
                2 => {
                    let k = rng.int(2, p.n_ode.max(2) as usize) as u64;
                    sc.faults.push(make_fault(rng, Trigger::From(k), FaultKind::NanAll, n));
                }
                _ => {}
            }
        }
    }
    sc
}

impl Prop for C06 {
    fn id(&self) -> &'static str {
        P
    }
    fn level(&self) -> &'static str {
        "exploration"
    }
    fn rule(&self) -> String {
        "seeded swarm over histories, not just inputs: every accepted step of every run, where histories are widened by transient finite RHS glitches (forced rejections and post-rejection steps), ModifiedSolution at chosen callbacks (BDF restart, FSAL refresh), max_step/min_step clamps, solver knobs, budget stops, terminal events, persistent NaN faults, both directions, the zero-length run. Low-level runs check the interpolant handed to every callback; high-level runs check Solution::sol/sol_many/sol_span. Non-trivial = at least 3 accepted steps (or the zero-length run); distinct = distinct run fingerprint.".into()
    }
    fn assumptions(&self) -> Vec<String> {
        vec![
            "end-point agreement within tau_I (DESIGN §5); a requested time emitted through the handler's 1e-12 slack by extrapolating a step over a non-negligible fraction of its length is excluded from the sample clause".into(),
            "'clearly outside' = at least max(1e-6*|span|, 1e-9*(1+|t|)) beyond either end".into(),
        ]
    }
    fn n_items(&self, tier: Tier) -> u64 {
        n_sampled_chunks(tier)
    }
    fn expand(&self, item: u64, _tier: Tier, seed: u64) -> Vec<Scenario> {
        (0..CHUNK)
            .map(|j| {
                let mut rng = Rng::new(mix(seed, P, item * CHUNK + j));
                sampled(&mut rng)
            })
            .collect()
    }

    fn check(&self, sc: &Scenario, cov: &mut Cov) -> Vec<Violation> {
        let mut v = Vec::new();
        match sc.entry {
            Entry::Low => {
                let o = run_low(sc, false);
                cov.note_low(&o);
                if o.verdict != Verdict::Returned {
                    cov.blocked += 1;
                    return v;
                }
                if o.n_cb >= 4 {
                    cov.nontrivial.insert(o.fp);
                }
                cov.add("callbacks_checked", o.cbs.len() as u64);
                let rej = o.res.as_ref().map(|r| r.steps.rejected).unwrap_or(0);
                if rej > 0 {
                    cov.bump("runs_with_rejections");
                }
                v.extend(check_protocol(P, sc, &o, &ProtoOpts { structure: false, interpolant: true }));
            }
            Entry::High => {
                let r = run_high(sc, false);
                cov.note_high(&r);
                if r.verdict != Verdict::Returned {
                    cov.blocked += 1;
                    return v;
                }
                let s = r.sol.as_ref().unwrap();
                let dir = sc.dir();
                let zero_len = sc.x0 == sc.xend;
                if s.naccpt >= 3 || zero_len {
                    cov.nontrivial.insert(r.fp);
                }
                if !sc.dense {
                    // NotEnabled
                    match s.sol(sc.x0) {
                        Err(Error::Interpolation(InterpolationError::NotEnabled)) => {}
                        other => v.push(viol(P, "not_enabled", format!("dense_output disabled but sol(x0) returned {:?}", other.map(|_| "Ok")))),
                    }
                    match s.sol_many(&[sc.x0]) {
                        Err(Error::Interpolation(InterpolationError::NotEnabled)) => {}
                        other => v.push(viol(P, "not_enabled", format!("dense_output disabled but sol_many returned {:?}", other.map(|_| "Ok")))),
                    }
                    if s.sol_span().is_some() {
                        v.push(viol(P, "not_enabled", "dense_output disabled but sol_span is Some".into()));
                    }
                    return v;
                }
                cov.bump("dense_runs");
                if zero_len {
                    match s.sol(sc.x0) {
                        Ok(y) if bits_eq(&y, &sc.y0) => {}
                        other => v.push(viol(P, "zero_length", format!("zero-length run: sol(x0) = {:?}, y0 = {:?}", other.ok(), sc.y0))),
                    }
                    return v;
                }
                let (a, b) = match s.sol_span() {
                    Some(x) => x,
                    None => {
                        if s.naccpt > 0 {
                            v.push(viol(P, "span_missing", format!("dense_output enabled, {} accepted steps, but sol_span is None", s.naccpt)));
                        }
                        return v;
                    }
                };
                let (lo, hi) = (a.min(b), a.max(b));
                if a.to_bits() != sc.x0.to_bits() {
                    v.push(viol(P, "span_start", format!("the dense span starts at {:e}, x0 = {:e}", a, sc.x0)));
                }
                if !((b - a) * dir > 0.0) {
                    v.push(viol(P, "span_direction", format!("the dense span ({:e}, {:e}) does not run in the direction of integration", a, b)));
                }
                // the first and last covered time include x0 and the last reported time
                let f = r.st.fmax;
                let xs = sc.xscale();
                let tol_at = |t: f64, y1: &[f64], y2: &[f64]| -> f64 {
                    let sn = norm_inf(y1).max(norm_inf(y2));
                    tau_i(sc.method, sn.max(sc.span().min(1.0) * f), xs.max(t.abs()), f, sc.min_atol()) + 4e-12 * f
                };
                // accepted grid for the extrapolation-skip rule (only needed with t_eval)
                let mut grid: Vec<f64> = Vec::new();
                if sc.t_eval.is_some() {
                    let mut g = sc.clone();
                    g.t_eval = None;
                    let gr = run_high(&g, false);
                    cov.note_high(&gr);
                    if let (Verdict::Returned, Some(gs)) = (&gr.verdict, &gr.sol) {
                        if gs.naccpt == s.naccpt && gs.status == s.status {
                            grid = gs.t.clone();
                        }
                    }
                }
                let extrapolated = |tau: f64| -> bool {
                    if sc.t_eval.is_none() {
                        return false;
                    }
                    if grid.len() < 2 {
                        return true;
                    }
                    for k in 1..grid.len() {
                        if (grid[k] - tau) * dir >= -1.000001e-12 {
                            let d = (tau - grid[k]) * dir;
                            let hk = (grid[k] - grid[k - 1]).abs();
                            return d > 1e-3 * hk;
                        }
                    }
                    false
                };
                // sol(t_i) reproduces every stored sample
                let mut worst = 0.0f64;
                for (i, &t) in s.t.iter().enumerate() {
                    // every reported time (x0 and the last one included) must be answerable
                    match s.sol(t) {
                        Ok(yy) => {
                            if extrapolated(t) || !all_finite(&yy) || !all_finite(&s.y[i]) {
                                cov.bump("samples_skipped");
                                continue;
                            }
                            let tol = tol_at(t, &yy, &s.y[i]);
                            let d = max_abs_diff(&yy, &s.y[i]);
                            worst = worst.max(d / tol.max(f64::MIN_POSITIVE));
                            if d > tol {
                                v.push(viol(P, "sample_mismatch", format!("sol({:e}) = {:?} but the stored sample is {:?} (diff {:e} > {:e})", t, yy, s.y[i], d, tol)));
                                break;
                            }
                        }
                        Err(e) => {
                            v.push(viol(P, "sol_fails_inside", format!("sol({:e}) failed with {:?} although that time is reported by the solution (dense span ({:e}, {:e}))", t, e, a, b)));
                            break;
                        }
                    }
                }
                cov.maxi("max.sample_diff_over_tol_x1000", (worst * 1000.0) as u64);
                // continuity across interior step boundaries (accepted endpoints are the reported
                // times when nothing filters the output)
                if sc.t_eval.is_none() && sc.first_step.is_none() && s.t.len() >= 3 {
                    let last_interior = if s.status == Status::UserInterrupt { s.t.len() - 2 } else { s.t.len() - 1 };
                    for i in 1..last_interior {
                        let t = s.t[i];
                        let tr = next_toward(t, dir);
                        if tr < lo || tr > hi {
                            continue;
                        }
                        if let (Ok(yl), Ok(yr)) = (s.sol(t), s.sol(tr)) {
                            if !all_finite(&yl) || !all_finite(&yr) {
                                continue;
                            }
                            let tol = tol_at(t, &yl, &yr);
                            let d = max_abs_diff(&yl, &yr);
                            if d > tol {
                                v.push(viol(P, "discontinuous", format!("dense output jumps at the step boundary t={:e}: {:?} (left) vs {:?} (right), diff {:e} > {:e}", t, yl, yr, d, tol)));
                                break;
                            }
                        }
                    }
                    cov.add("boundaries_checked", last_interior.saturating_sub(1) as u64);
                }
                // sol / sol_many on scheduler-chosen points of the covered span
                let mut rng = Rng::new(r.fp);
                let mut pts = vec![a, b, sc.x0];
                if let Some(&tl) = s.t.last() {
                    pts.push(tl);
                }
                for _ in 0..8 {
                    pts.push(lerp(a, b, rng.f()).max(lo).min(hi));
                }
                let many = s.sol_many(&pts);
                match &many {
                    Ok(ys) => {
                        for (k, &t) in pts.iter().enumerate() {
                            match s.sol(t) {
                                Ok(y1) => {
                                    if !bits_eq(&y1, &ys[k]) && all_finite(&y1) {
                                        v.push(viol(P, "sol_many_mismatch", format!("sol({:e}) and sol_many disagree: {:?} vs {:?}", t, y1, ys[k])));
                                        break;
                                    }
                                }
                                Err(e) => {
                                    v.push(viol(P, "sol_fails_inside", format!("sol({:e}) failed with {:?} inside the span ({:e}, {:e})", t, e, a, b)));
                                    break;
                                }
                            }
                        }
                    }
                    Err(e) => v.push(viol(P, "sol_fails_inside", format!("sol_many failed with {:?} on points of the covered span ({:e}, {:e}): {:?}", e, a, b, pts))),
                }
                // clearly outside
                let margin = (1e-6 * (hi - lo)).max(1e-9 * (1.0 + hi.abs().max(lo.abs())));
                for t in [lo - margin, hi + margin, lo - 1.0, hi + 1.0] {
                    match s.sol(t) {
                        Err(Error::Interpolation(InterpolationError::OutOfRange { .. })) => {}
                        other => {
                            v.push(viol(P, "out_of_range_accepted", format!("sol({:e}) clearly outside the span ({:e}, {:e}) returned {:?}", t, a, b, other.map(|_| "Ok"))));
                            break;
                        }
                    }
                    match s.sol_many(&[0.5 * (lo + hi), t]) {
                        Err(Error::Interpolation(InterpolationError::OutOfRange { .. })) => {}
                        other => {
                            v.push(viol(P, "out_of_range_accepted", format!("sol_many with a point {:e} clearly outside the span returned {:?}", t, other.map(|_| "Ok"))));
                            break;
                        }
                    }
                }
                if cov.samples.len() < 4 && s.status != Status::Success {
                    cov.sample(serde_json::json!({"scenario": sc.summary(), "status": status_name(s.status), "span": [a, b], "samples": s.t.len()}));
                }
            }
        }
        v
    }
}

