//! C12 — output options do not perturb the integration; calls are repeatable.
//! Observer non-interference is judged on the complete S1/S2 seam log (what the integration
//! consumed), which is the strongest available statement of "bit-identical step sequence".

use crate::core::*;
use crate::gen::*;
use crate::rng::{mix, Rng};
use crate::run::*;
use crate::scenario::*;
use crate::util::*;

pub struct C12;
const P: &str = "C12";
const CHUNK: u64 = 32;

fn lerp(a: f64, b: f64, th: f64) -> f64 {
    a + th * (b - a)
}

/// knobs for the low-level dense-switch twin, derived deterministically from the scenario (so that
/// the check stays a pure function of it): non-default controller parameters matter here because
/// the default beta = 0 hides any dependence on the controller memory
fn low_knobs(sc: &Scenario) -> Knobs {
    let mut rng = Rng::new(sc.x0.to_bits() ^ sc.xend.to_bits().rotate_left(17) ^ sc.y0[0].to_bits().rotate_left(31));
    gen_knobs(&mut rng, sc.method)
}

fn n_sampled_chunks(tier: Tier) -> u64 {
    match tier {
        Tier::Quick => 2_500,
        Tier::Thorough => 75_000,
    }
}

/// The scenario carries the *full* observer set; the check strips it down to every subset.
pub(crate) fn sampled(rng: &mut Rng) -> Scenario {
    let m = gen_method(rng);
    let class = if rng.bool(0.1) { ProbClass::Hostile } else { ProbClass::Smooth };
    let (mut sc, p) = if class == ProbClass::Smooth {
        gen_admissible(rng, m, class, Entry::High, 20_000, &mut |rng, sc| {
            if sc.method != Meth::RK4 {
                if rng.bool(0.2) {
                    sc.max_step = Some(sc.span() * rng.logu(0.02, 1.5));
                }
                if rng.bool(0.15) {
                    sc.first_step = Some(sc.dir() * sc.span() * rng.logu(1e-4, 0.5));
                }
            }
        })
    } else {
        let sc = gen_base(rng, m, class, Entry::High);
        let p = pilot(&sc).unwrap_or(Pilot { grid: vec![sc.x0, sc.xend], ys: vec![sc.y0.clone(), sc.y0.clone()], cb_ode_calls: vec![0, 0], n_ode: 50, success: false, fmax: 1.0 });
        (sc, p)
    };
    let d = sc.dir();
    let n = sc.prob.dim();
    // intrusive observers: many requested times, roots in most steps
    let mut te = Vec::new();
    let per = rng.int(1, 6);
    for w in p.grid.windows(2) {
        for _ in 0..per {
            te.push(lerp(w[0], w[1], rng.f()));
        }
        if rng.bool(0.2) {
            te.push(w[1]);
        }
    }
    if te.is_empty() {
        te.push(lerp(sc.x0, sc.xend, 0.5));
    }
    te.sort_by(|a, b| (a * d).partial_cmp(&(b * d)).unwrap());
    te.truncate(400);
    sc.t_eval = Some(te);
    sc.dense = true;
    let nsteps = (p.grid.len() - 1).max(1) as f64;
    let nev = rng.int(1, 4);
    for _ in 0..nev {
        let kind = match rng.int(0, 2) {
            0 => EvKind::Sin { w: std::f64::consts::PI * nsteps * rng.uni(0.3, 2.0) / sc.span(), phi: lerp(sc.x0, sc.xend, rng.f()) },
            1 => {
                let i = rng.int(0, n - 1);
                let k = rng.int(0, p.ys.len() - 1);
                EvKind::State { i, c: p.ys[k][i] * rng.uni(0.9, 1.1) }
            }
            _ => EvKind::Time { c: lerp(sc.x0, sc.xend, rng.f()) },
        };
        sc.events.push(EventSpec { kind, scale: rng.sign() * rng.logu(1e-2, 1e2), dir: *rng.pick(&[Dir::All, Dir::Pos, Dir::Neg]), terminal: None });
    }
    if rng.bool(0.2) {
        // a transient glitch at a crossing index: any extra RHS call made on behalf of an observer
        // would shift it and the histories would diverge
        let k = rng.int(2, p.n_ode.max(2) as usize) as u64;
        let mut f = make_fault(rng, Trigger::At(k), FaultKind::Glitch, n);
        f.mag = rng.sign() * rng.logu(1e2, 1e5);
        sc.faults.push(f);
    }
    sc
}

impl Prop for C12 {
    fn id(&self) -> &'static str {
        P
    }
    fn level(&self) -> &'static str {
        "exploration"
    }
    fn rule(&self) -> String {
        "seeded swarm: for each scenario (problem, method, tolerances, direction, step options, optional transient RHS glitch at a crossing index) the plain run is compared with all 7 non-empty subsets of {t_eval (up to 400 times), dense_output, 1-4 non-terminal event functions with roots in most steps}, and the full-observer run is executed twice (repeatability); 9 executions per case. Non-trivial = the plain run made at least 3 accepted steps and the event functions produced at least one event; distinct = distinct fingerprint of the full-observer run.".into()
    }
    fn assumptions(&self) -> Vec<String> {
        vec![
            "non-interference is judged on a hash of the complete sequence of (t, y, f(t,y)) at the RHS seam and (t, y) at the Jacobian seam, plus the six counters and the status".into(),
            "cross-thread and cross-process repeatability is covered by the determinism audit (tools/audit_determinism.sh), which runs whole campaigns twice and diffs their fingerprints".into(),
        ]
    }
    fn n_items(&self, tier: Tier) -> u64 {
        n_sampled_chunks(tier)
    }
    fn expand(&self, item: u64, _tier: Tier, seed: u64) -> Vec<Scenario> {
        (0..CHUNK)
            .map(|j| {
                let mut rng = Rng::new(mix(seed, P, item * CHUNK + j));
                sampled(&mut rng)
            })
            .collect()
    }

    fn check(&self, sc: &Scenario, cov: &mut Cov) -> Vec<Violation> {
        let mut v = Vec::new();
        let mut plain = sc.clone();
        plain.t_eval = None;
        plain.dense = false;
        plain.events.clear();
        let p = run_high(&plain, false);
        cov.note_high(&p);
        if p.verdict != Verdict::Returned {
            cov.blocked += 1;
            return v;
        }
        let ps = p.sol.as_ref().unwrap();
        let stats = |s: &ivp::prelude::Solution| (s.nfev, s.njev, s.nlu, s.nstep, s.naccpt, s.nrejct, s.status);
        let mut full_fp = 0u64;
        let mut n_events = 0usize;
        // what the run with only the event functions attached reports as events
        let mut events_ref: Option<(Vec<Vec<f64>>, Vec<Vec<Vec<f64>>>, String)> = None;
        for mask in 1..8u8 {
            let mut o = plain.clone();
            if mask & 1 != 0 {
                o.t_eval = sc.t_eval.clone();
            }
            if mask & 2 != 0 {
                o.dense = true;
            }
            if mask & 4 != 0 {
                o.events = sc.events.iter().cloned().map(|mut e| { e.terminal = None; e }).collect();
            }
            let r = run_high(&o, false);
            cov.note_high(&r);
            let name = format!("{}{}{}", if mask & 1 != 0 { "t_eval " } else { "" }, if mask & 2 != 0 { "dense " } else { "" }, if mask & 4 != 0 { "events" } else { "" });
            if r.verdict != p.verdict {
                v.push(viol(P, "perturbed", format!("with [{name}] the call ends as {:?} but the plain run as {:?}", r.verdict, p.verdict)));
                continue;
            }
            let rs = r.sol.as_ref().unwrap();
            if r.st.hash12 != p.st.hash12 || r.st.ode_calls != p.st.ode_calls || r.st.jac_calls != p.st.jac_calls {
                v.push(viol(
                    P,
                    "perturbed",
                    format!("with [{name}] the sequence of RHS/Jacobian evaluations differs from the plain run ({} vs {} RHS calls, {} vs {} Jacobian calls)", r.st.ode_calls, p.st.ode_calls, r.st.jac_calls, p.st.jac_calls),
                ));
                continue;
            }
            if stats(rs) != stats(ps) {
                v.push(viol(P, "stats_differ", format!("with [{name}] the statistics/status differ: {:?} vs plain {:?}", stats(rs), stats(ps))));
            }
            if mask & 1 == 0 {
                let same = rs.t.len() == ps.t.len() && rs.t.iter().zip(&ps.t).all(|(a, b)| a.to_bits() == b.to_bits()) && rs.y.iter().zip(&ps.y).all(|(a, b)| bits_eq(a, b));
                if !same {
                    v.push(viol(P, "samples_differ", format!("with [{name}] the reported accepted steps differ from the plain run ({} vs {} samples)", rs.t.len(), ps.t.len())));
                }
            }
            if mask & 2 != 0 && sc.first_step.is_none() {
                // the dense solution reproduces the plain run's accepted states
                if let Some((a, b)) = rs.sol_span() {
                    let (lo, hi) = (a.min(b), a.max(b));
                    let f = p.st.fmax;
                    for (i, &t) in ps.t.iter().enumerate() {
                        if t < lo || t > hi {
                            continue;
                        }
                        if let Ok(yy) = rs.sol(t) {
                            if !all_finite(&yy) || !all_finite(&ps.y[i]) {
                                continue;
                            }
                            let sn = norm_inf(&yy).max(norm_inf(&ps.y[i]));
                            let tol = tau_i(sc.method, sn.max(sc.span().min(1.0) * f), sc.xscale().max(t.abs()), f, sc.min_atol()) + 4e-12 * f;
                            let d = max_abs_diff(&yy, &ps.y[i]);
                            if d > tol {
                                v.push(viol(P, "dense_mismatch", format!("with [{name}]: sol({:e}) = {:?} but the plain run's state there is {:?} (diff {:e} > {:e})", t, yy, ps.y[i], d, tol)));
                                break;
                            }
                        }
                    }
                }
            }
            if mask & 4 != 0 {
                // the located events themselves do not depend on the other observers either
                match &events_ref {
                    None => events_ref = Some((rs.t_events.clone(), rs.y_events.clone(), name.clone())),
                    Some((te, ye, refname)) => {
                        let same = te.len() == rs.t_events.len()
                            && te.iter().zip(&rs.t_events).all(|(a, b)| a.len() == b.len() && a.iter().zip(b).all(|(x, y)| x.to_bits() == y.to_bits()))
                            && ye.iter().zip(&rs.y_events).all(|(a, b)| a.len() == b.len() && a.iter().zip(b).all(|(x, y)| bits_eq(x, y)));
                        if !same {
                            v.push(viol(P, "events_depend_on_observers", format!("the events reported with [{name}] differ from those reported with [{refname}]: {:?} vs {:?}", rs.t_events, te)));
                        }
                    }
                }
            }
            if mask == 7 {
                full_fp = r.fp;
                n_events = rs.t_events.iter().map(|e| e.len()).sum();
                // repeatability
                let r2 = run_high(&o, false);
                cov.note_high(&r2);
                if r2.fp != r.fp {
                    v.push(viol(P, "not_repeatable", "repeating the same call gave a different result".into()));
                }
            }
        }
        // low level: the solver's own dense_output switch only decides whether the callback gets an
        // interpolant - the accepted steps, their states and the step counters must not depend on it
        // (DOP853 legitimately saves its three dense-only evaluations per step, so nfev may differ)
        if sc.method != Meth::BDF {
            let mut lo = plain.clone();
            // (a fault addressed by crossing index would hit different evaluations in the two runs:
            // DOP853 makes three evaluations fewer per step with dense output off)
            lo.faults.clear();
            lo.entry = Entry::Low;
            lo.knobs = low_knobs(sc);
            let a = run_low(&lo, false);
            cov.note_low(&a);
            lo.low_dense = false;
            let b = run_low(&lo, false);
            cov.note_low(&b);
            if let (Verdict::Returned, Verdict::Returned) = (&a.verdict, &b.verdict) {
                let (ra, rb) = (a.res.as_ref().unwrap(), b.res.as_ref().unwrap());
                let same = a.n_cb == b.n_cb
                    && ra.status == rb.status
                    && (ra.steps.total, ra.steps.accepted, ra.steps.rejected) == (rb.steps.total, rb.steps.accepted, rb.steps.rejected)
                    && a.cbs.iter().zip(b.cbs.iter()).all(|(p, q)| p.x.to_bits() == q.x.to_bits() && bits_eq(&p.y_in, &q.y_in));
                if !same {
                    v.push(viol(P, "low_level_dense_switch", format!("low-level run with dense_output(false) takes different steps than with dense_output(true): {} vs {} callbacks, status {} vs {}, knobs {:?}", b.n_cb, a.n_cb, status_name(rb.status), status_name(ra.status), lo.knobs)));
                }
                cov.bump("low_level_dense_twins");
            }
        }
        if ps.naccpt >= 3 && n_events >= 1 {
            cov.nontrivial.insert(full_fp);
        }
        cov.add("events_located", n_events as u64);
        if cov.samples.len() < 4 {
            cov.sample(serde_json::json!({"scenario": sc.summary(), "plain_naccpt": ps.naccpt, "plain_nfev": ps.nfev, "events_located_in_full_run": n_events}));
        }
        v
    }
}
