#!/bin/sh
# Apply a patch to /repo, run every claimed check (quick by default), report which checks fire,
# and restore /repo. usage: tools/try_mutant.sh <patch.diff> [quick|thorough] [ids...]
here="$(cd "$(dirname "$0")/.." && pwd)"
patch="$1"; tier="${2:-quick}"; shift; shift
ids="$*"; [ -n "$ids" ] || ids="C03 C04 C05 C06 C08 C09 C10 C11 C12 C18 C19"
cd /repo || exit 2
if [ -n "$(git status --porcelain)" ]; then echo "/repo is not clean"; exit 2; fi
git apply "$patch" || { echo "patch does not apply"; exit 2; }
out="/tmp/try_mutant_out"; rm -rf "$out"; mkdir -p "$out"
caught=""
for id in $ids; do
  VERIF_ROOT="$out" "$here/check" "$id" "$tier" > "$out/$id.log" 2>&1
  rc=$?
  if [ "$rc" = "1" ]; then caught="$caught $id"; grep '^VIOLATION' "$out/$id.log" | cut -c1-420 | head -3; fi
  if [ "$rc" = "2" ]; then echo "harness error in $id:"; tail -3 "$out/$id.log"; fi
done
git -C /repo checkout -- .
echo "CAUGHT_BY:${caught:- none}"
# rebuild against the restored tree so that later direct runs of the binary are not stale
cd "$here/sim" && cargo build --release --offline --target-dir "${VERIF_TARGET_DIR:-$here/sim/target}" >/dev/null 2>&1
