#!/usr/bin/env python3
"""Regenerates the `fixed` list of /verif/known_findings.json from the table below; commit hashes
are resolved from /repo's log by commit subject, so history rewrites in /repo do not stale them.
The `findings` list (open findings) is kept as it is in the file."""
import json, os, subprocess, sys

HERE = os.path.dirname(os.path.dirname(os.path.abspath(__file__)))

# (finding id, property that reported it, substring(s) of the fix commit subject, what failed, replay file(s))
FIXED = [
 ("F01", "C04", ["RK23 never terminates when the error norm is NaN"], "RK23: solve_ivp never returned once the RHS produced NaN (NaN error norm left h unchanged in the reject branch) or near a finite-time blow-up (no step-size underflow guard)", ["F01-rk23-nan-hang"]),
 ("F02", "C04", ["RADAU reports Success with NaN states"], "RADAU: status Success with NaN states whenever the error norm was NaN (err.sqrt().max(1e-10) swallowed it)", ["F02-radau-nan-success"]),
 ("F03", "C04", ["DOP853 reports Success with non-finite interpolated samples"], "DOP853: Success with non-finite t_eval samples when the RHS is non-finite at the end point of an accepted step or in a dense-output stage", ["F03-dop853-nan-dense-success", "F03b-dop853-inf-dense-stage-success"]),
 ("F04", "C19", ["RADAU accepts a step computed with the old size"], "RADAU: after a predicted Newton divergence the step was accepted with end point x+h_old while the interpolant handed to SolOut (and stored for dense output) used the reduced h (also C06)", ["F04-radau-newton-fallthrough-wrong-interpolant"]),
 ("F05", "C19", ["RK23 can overshoot xend by one ulp"], "RK23: x+(xend-x) could miss xend by one ulp, followed by an extra one-ulp step against the direction of integration (reversed interval handed to SolOut; also C03 monotonicity)", ["F05-rk23-landing-wrong-direction-step"]),
 ("F06", "C10", ["event root finder can leave its bracket"], "DefaultSolOut Brent iteration accepted interpolation steps pointing out of the bracket: events located outside their step / outside [x0,xend], reported repeatedly; terminal stop at a bogus point (also C08, C09, C03)", ["F06-brent-leaves-bracket"]),
 ("F07", "C10", ["requested output times before a terminal event"], "t_eval times between the start of the final step and the terminal event were dropped (also C05)", ["F07-terminal-step-drops-t_eval"]),
 ("F08", "C10", ["BDF hands SolOut x - h"], "BDF passed x-h (one ulp off the previous x) as xold: an event at the left end of a step was reported one ulp before the previous sample (also C19 contiguity)", ["F08-bdf-xold-one-ulp"]),
 ("F09", "C10", ["first_step output enforcement goes the wrong way"], "backward run with a (correctly signed) first_step: bogus extrapolated sample at x0+|h0| outside the interval, non-monotone times (also C03, C11)", ["F09-first_step-sign-backward-bogus-sample"]),
 ("F10", "C06", ["sol(t) extrapolates an earlier segment"], "Solution::sol picked the first segment within an absolute 1e-12 of t; with accepted steps shorter than 1e-12 it extrapolated an earlier segment, so sol(t_i) != y_i (found by the C05 value oracle)", ["F10-sol-picks-wrong-segment-tiny-steps"]),
 ("F11", "C03", ["RK4 steps past xend"], "RK4: fixed step not dividing the interval -> last step taken in full, run ends (and evaluates the RHS) beyond xend with Success", ["F11-rk4-overshoots-xend"]),
 ("F11b", "C03", ["step-size options larger than the interval"], "max_step > |xend-x0| (or inf): hinit probes the RHS beyond xend on short intervals; first_step > interval: RADAU steps past xend, the output handler waits for an unreachable target (Success with only x0)", []),
 ("F12", "C03", ["RADAU never flags its first step as the last one"], "RADAU: first step reaching xend not flagged as last: overshoot, or h=0 and StepSizeTooSmall although covered (span 1e-12)", ["F12-radau-tiny-span-covered-but-stepsizetoosmall"]),
 ("F13", "C03", ["default output handler misfires when accepted steps are shorter"], "DefaultSolOut absolute 1e-12 tests (initial-callback detection, first_step target, duplicate suppression) misfire for steps < 1e-12: accepted steps missing (Success with only x0; C18 naccpt != intervals), first_step target emitted after later samples (non-monotone)", ["F13-first_step-output-after-later-sample"]),
 ("F14", "C03", ["RADAU reports StepSizeTooSmall after covering"], "RADAU: closing step of a few ulps after an exactly dividing max_step refused as too small", ["F14-radau-closing-step-too-small"]),
 ("F15", "C03", ["terminal event at the previous step end duplicates"], "terminal root on the previous step end: event point pushed again, t[i]==t[i+1]", ["F15-terminal-point-duplicates-previous-sample"]),
 ("F16", "C03", ["BDF can stop one ulp short of xend"], "BDF: x+(xend-x) / two halves of a rejected final step stop one ulp short of xend, closing step refused: StepSizeTooSmall although covered", ["F16-bdf-lands-one-ulp-short-stepsizetoosmall"]),
 ("F17", "C03", ["sample beyond a terminal event survives"], "t_eval time emitted through the 1e-12 slack of the previous step lies beyond the terminal event found in the next step: out-of-order sample later than the event (also C10)", ["F17-t_eval-slack-sample-beyond-terminal-event"]),
 ("F18", "C03", ["RK23 needs an extra step of a few ulps"], "RK23: no final-step stretch: exactly dividing max_step needs an extra few-ulp step (NeedLargerNMax with the interval covered to rounding, near-duplicate samples)", ["F18-rk23-closing-ulp-step"]),
 ("F19", "C18", ["RK4 does not count its initial evaluation"], "RK4: nfev one short (f(x0,y0) not counted), naccpt always 0", ["F19-rk4-counters"]),
 ("F20", "C18", ["BDF does not count the evaluation made by the initial step-size guess"], "BDF: hinit's RHS call not counted in nfev", ["F20-bdf-hinit-eval-not-counted"]),
 ("F21", "C18", ["a step abandoned by the stiffness test is counted as accepted"], "DOPRI5/DOP853: ProbablyStiff exit counts the abandoned step as accepted (naccpt = reported steps + 1)", ["F21-probablystiff-counts-abandoned-step"]),
 ("F22", "C04", ["BDF loops forever when a step at min_step"], "BDF with min_step: a failing RHS (or unmeetable error test) at min_step loops forever (halve, raise back to min_step, ...); found as blocked runs of the C06 campaign, now generated by C04 itself", ["F22-bdf-min_step-hang"]),
 ("F24", "C04", ["RADAU panics when min_step exceeds the maximum step"], "RADAU: clamp(hmin, hmax) panics when min_step > max_step or > the interval", ["F24-radau-min_step-gt-max-panics"]),
 ("F25", "C09", ["events of slowly varying event functions are reported at a step end"], "DefaultSolOut compared |g| at the step ends with XTOL=2e-12 (an abscissa tolerance): events of event functions with small slope were reported at a step end, up to a whole step away from the root (also C08)", ["F25-event-precheck-compares-g-with-xtol"]),
 ("F26", "C18", ["RK4 takes a zero-length extra step after landing exactly on xend"], "RK4: with steps of a few ulps the accumulated x lands exactly on xend without the last-step flag; a zero-length extra step is taken and counted (naccpt = reported intervals + 1)", ["F26-rk4-zero-length-extra-step"]),
 ("F27", "C10", ["first_step output is dropped when a terminal event follows it"], "first_step (no t_eval) + terminal event after x0+first_step in the step that reaches it: the first_step sample is lost although the same run without the terminal flag reports it before the event", ["F27-first_step-target-dropped-before-terminal-event"]),
 ("F28", "C19", ["RK23 hands SolOut an interpolant with all-zero coefficients after XOut"], "RK23 with the low-level dense_output off: once a requested XOut abscissa is reached the callback receives an interpolant built from a never-filled (all-zero) coefficient buffer (also C06); found after ControlFlag::XOut and the dense switch were added to the simulated SolOut's schedule", ["F28-rk23-xout-interpolant-zero-coefficients"]),
 ("F29", "C09", ["events of very small event functions are mislocated"], "Brent iteration tests the bracket with fb*fc > 0: for event functions of magnitude below ~1e-154 the product underflows to zero and the event is located far from the root (also C08); found after event-function scales were widened to 1e-220..1e220 (first noticed by a seeding sub-agent as pre-existing behaviour)", ["F29-brent-sign-product-underflow"]),
 ("F23", "C06", ["sol(t) rejects the last reported time"], "Solution::sol/sol_many return OutOfRange for the last reported time when the final accepted abscissa is an ulp short of a reported t_eval time", ["F23-sol-rejects-last-reported-time"]),
]

def main():
    log = subprocess.run(["git", "-C", "/repo", "log", "--format=%h %s"], capture_output=True, text=True).stdout.splitlines()
    path = os.path.join(HERE, "known_findings.json")
    kf = json.load(open(path)) if os.path.exists(path) else {"findings": []}
    fixed = []
    for fid, prop, subs, what, replays in FIXED:
        hs = []
        for sub in subs:
            m = [l.split()[0] for l in log if sub in l]
            if not m:
                print("no commit for", fid, sub, file=sys.stderr); sys.exit(1)
            hs.append(m[0])
        rp = "; replay " + ", ".join(f"findings/{r}.replay.json" for r in replays) if replays else ""
        fixed.append(f"fixed: property={prop} {'+'.join(hs)} [{fid}] {what}{rp}")
    kf["fixed"] = fixed
    json.dump(kf, open(path, "w"), indent=2)
    print(len(fixed), "fixed entries")

if __name__ == "__main__":
    main()
