#!/usr/bin/env python3
"""Regenerates /verif/MANIFEST.json from the table below (kept in one place so that the
claimed / not-applicable split stays consistent with DESIGN.md)."""
import json, os

HERE = os.path.dirname(os.path.dirname(os.path.abspath(__file__)))

CLAIMED = {
    # id: (level, technique, text, note, design_ref)
    "C03": ("exploration",
            "deterministic simulation: seam-level interval invariant on every ode/jac/events crossing + status honesty judged from observables (dense-span twin, non-terminal twin) on fault-free, cancelled and budget/fault-stopped runs",
            "A deterministic sweep (6 methods x 2 directions x x0 in {0,3} x 7 span lengths 1e-12..7 x 9 option classes) plus a seeded swarm over spans (tiny, huge, infinite with terminal event), first_step (incl. > span, either sign), max_step (inf, > span, divisors), t_eval, dense_output, events, in three sub-populations (fault-free / terminal event / budget, persistent non-finite RHS fault, or a transient non-finite fault biased to the last step's crossings). Oracles: no callback evaluated outside [x0,xend]; t starts at x0, strictly monotone, inside the interval; shapes; Success => covered to rounding and last sample == xend; last accepted abscissa == xend bitwise => Success; UserInterrupt <=> a terminal function reaches its count in the twin; Success => finite values.",
            "Trusted: coverage read from the dense span (dense twin), terminal stop read from the twin with flags cleared; delta_t slack (x step count for RK4).",
            "DESIGN.md §5 C03"),
    "C04": ("fault_enumeration",
            "deterministic simulation: fault injection at the RHS seam at every crossing index + seeded swarm, tick-watchdog bounded liveness",
            "Every S1 crossing index of every catalogue base gets a fault of every kind/duration (exhaustive over that finite space), plus a seeded swarm of random problems/options/knobs with phase-biased fault placement, real (also terminal) event functions next to the faults, a quarter of the swarm borrowed from the other ten campaigns' placement-aware generators, and the intrinsic blow-up/discontinuity/stiff cases; oracles: no panic, no hang within 5e6 ticks, no Success with non-finite values from an error-controlled method, every accepted step seen on the events seam is among the returned samples.",
            "Trusted: the simulator (SimIVP fault plan, tick watchdog); faults only at the RHS; a sampled search, not a proof.",
            "DESIGN.md §5 C04"),
    "C05": ("exploration",
            "deterministic simulation: requested times placed against the pilot step grid, early stops injected (budget / terminal event / persistent RHS fault); executable t_eval reference model + dense on/off twin",
            "Seeded swarm over placements of requested times relative to the accepted-step grid (inside, on a boundary, boundary +-1e-13..1e-11, x0, xend, many/none per step, duplicates), all methods, both directions, tiny spans, the zero-length run with t_eval at x0 (x0 anywhere), each run complete or stopped early by exactly one injected cause (step budget, terminal event inside a step holding requested times, persistent non-finite RHS from a chosen crossing); plus fixed boundary sweeps with budgets 1..9. Oracles: reported times == reference model bitwise; each value == the dense interpolant of the same run within tau_I+4e-12*F; t/y bitwise independent of dense_output.",
            "Accuracy against the exact solution is NOT decided (pure numerics). Stopping point read from observables (xend / terminal event time / dense span end); 1e-12 window at the stopping point as documented by the handler.",
            "DESIGN.md §5 C05"),
    "C06": ("exploration",
            "deterministic simulation: per-callback interpolant invariants over fault/modify/clamp-widened histories + dense-solution checks on runs stopped early by budget, terminal event or RHS fault",
            "Seeded swarm over histories: transient finite RHS glitches force rejections and post-rejection steps, transient non-finite values take the retry paths (error-controlled methods), ModifiedSolution at chosen callbacks (BDF restart, FSAL refresh), max_step/min_step clamps, knobs, budget stops, terminal events, persistent NaN faults, both directions, the zero-length run. Low-level: the interpolant handed to every callback equals the state left behind by the previous callback at xold and y at x (tau_I), with matching bounds. High-level: span starts at x0, every reported time is answerable by sol and reproduces the stored sample, left/right limits agree at every interior step boundary, sol/sol_many agree and succeed on points of the span incl. both ends, OutOfRange clearly outside, NotEnabled without dense_output.",
            "Trusted: tau_I tolerance (DESIGN §5); samples emitted through the handler's 1e-12 slack by extrapolating a step over a non-negligible fraction of its length are excluded (counted).",
            "DESIGN.md §5 C06"),
    "C08": ("exploration",
            "deterministic simulation: simulator-owned event functions with roots placed against the pilot step grid; every delivered event checked over the recorded history (bracketing, state == dense solution, sign change in the configured direction, order, shapes)",
            "Seeded swarm (1-4 event functions: time, state threshold, periodic, two-root product; roots mid-step, 1e-9 from a boundary, exactly on a boundary; several functions per step; scales 1e-15..1e15; all direction filters; both directions; all methods; glitch-forced rejections) plus a catalogue placing a single root in every step. Every reported event: lies between two consecutive accepted endpoints and inside the dense span; y_e == sol(t_e) within tau_I+4e-12F; g on the dense solution changes sign in the configured direction (in integration order) across [t_e-d, t_e+d], d=4e-12+8eps|t_e| (values below g's own rounding noise count as zero); per-function order; shapes.",
            "Preconditions stated in evidence: the direction clause is skipped when the step (or the accuracy window) holds more than one root of the simulator's own event function (which root a root finder returns is unspecified); overflowing fixed-step runs are blocked. The fault axis is thin here: the search is mostly over root timing.",
            "DESIGN.md §5 C08/C09"),
    "C09": ("exploration",
            "deterministic simulation: exactly-once / no-loss delivery of sign changes over the recorded history (event functions recomputed at the accepted endpoints), roots placed against the pilot step grid",
            "Catalogue: a single-root event s*(t-c) with the root in EVERY accepted step at 5 fractions (incl. 1e-9 from either boundary) x 5 scale/direction combinations (1e-13..1e6), all methods, both directions; plus the seeded swarm of C08. Per function and per pair of consecutive accepted endpoints: strict sign change in the configured direction => an event in that closed step; counts A <= #events <= A+Z (Z = steps with an exactly-zero endpoint, exempt); every event lies in a change/exempt step; single-root clause: exactly one event within 4e-12+8eps|c| of c.",
            "Trusted: event functions are pure, so the simulator's recomputation at the reported endpoints is what the handler saw; precondition naccpt == len(t)-1.",
            "DESIGN.md §5 C08/C09"),
    "C10": ("fault_enumeration",
            "deterministic simulation: terminal event = cancellation at a scheduler-placed instant (every step x 7 fractions x occurrence 1/2, + seeded swarm); oracle = bit-identical prefix of the un-cancelled twin run",
            "The terminal root is placed in EVERY accepted step of every catalogue base at 7 fractions (incl. 1e-9 from either boundary), as first and as second occurrence, with earlier/later non-terminal roots in the same step, with/without t_eval and dense output, both directions; plus a seeded swarm (1-4 event functions of four kinds, direction filters, scales, counts 1-3, roots on boundaries). Each case runs the terminal run and its twin with the flags cleared: status, final sample == event point bitwise, earlier samples and per-function events == the twin's prefix bitwise, nothing beyond t*, dense span covers t*.",
            "Trusted: the twin run defines the reference; samples/events within root-finder accuracy (4e-12) of t* may be present or absent; ties between terminal functions accepted.",
            "DESIGN.md §5 C10"),
    "C11": ("fault_enumeration",
            "deterministic simulation: step budget = crash after N steps for every N (bitwise prefix of the un-budgeted twin); max_step/first_step as invariants over the recorded seam log",
            "Every budget N = 1..nstep+2 of every catalogue base (plain and with t_eval+events+dense, both directions), plus a seeded swarm of budgets, max_step (inf, > span, exact divisors, tiny) and first_step values, low-level (exact h, complete RHS log) and high-level. Oracles: nstep <= N+1; N >= unbudgeted nstep changes nothing; otherwise identical or NeedLargerNMax with bitwise prefixes of t, y, t_events, y_events; every accepted |h| <= max_step (x1.01 final step); every RHS abscissa within max_step of the current point (covers hinit); first trial step reaches exactly x0+first_step; an accepted first trial step has length first_step exactly; RK4 steps all equal first_step.",
            "Trusted: twin run as reference; per-method RHS-call count of one attempt for the 'first step accepted' clause; delta_t slack on reconstructed times.",
            "DESIGN.md §5 C11"),
    "C12": ("exploration",
            "deterministic simulation: observer non-interference on the complete RHS/Jacobian seam log (all 7 observer subsets vs the plain run) + in-process repeatability; cross-process determinism audit",
            "Seeded swarm; per case the plain run is compared with every non-empty subset of {t_eval (<=400 times), dense_output, 1-4 non-terminal event functions with roots in most steps}: identical hash of the full (t,y,f) RHS log and (t,y) Jacobian log, identical nfev/njev/nlu/nstep/naccpt/nrejct/status, identical accepted-step samples when t_eval is off, sol(t_i) of the dense run reproduces the plain states; the full-observer run executed twice must have identical fingerprints. A transient RHS glitch at a crossing index amplifies any extra evaluation made on behalf of an observer.",
            "Trusted: the seam log hash; cross-thread/process repeatability shown by tools/audit_determinism.sh rather than by this check.",
            "DESIGN.md §5 C12"),
    "C18": ("exploration",
            "deterministic simulation: conservation between reported counters and seam crossings recorded by the simulator, under interrupt/modify/fault/budget histories",
            "Seeded swarm over problems (incl. hostile), methods, directions, analytic vs the crate's own finite-difference Jacobian (run for real through an adapter so its RHS calls are tagged), high- and low-level entry, and abnormal exits (Interrupt/ModifiedSolution at chosen callbacks, budget, persistent non-finite RHS fault, glitch-forced rejections, transient non-finite values (retry paths), terminal events, zero-length/tiny intervals). Oracles: nfev == RHS crossings outside Jacobian differencing; njev == Jacobian crossings; naccpt == callbacks-1 (low) == len(t)-1 (high, no t_eval/first_step; a terminal event may truncate the last interval to nothing); nstep >= naccpt; all zero for the zero-length run.",
            "Trusted: SimIVP crossing counters and the in_jac tag of the FD adapter.",
            "DESIGN.md §5 C18"),
    "C19": ("fault_enumeration",
            "deterministic simulation: simulator-owned SolOut returns Interrupt/ModifiedSolution at every callback index (and all ordered pairs) + seeded swarm; protocol reference model + bitwise twin runs",
            "For every catalogue base the cancellation (Interrupt) and the in-flight mutation (ModifiedSolution: identity, x2, perturbed) are delivered at EVERY callback index, plus all ordered pairs on short runs, plus a seeded swarm of 0-4-action plans over random problems/knobs/options. Oracles: an executable protocol model (first call, contiguity, direction, interpolant bounds and end-point values, ending at xend), no seam crossing after Interrupt, next crossing after ModifiedSolution is ode(x, written state) (BDF: then jac), identity plan bitwise equals the unmodified twin, power-of-two scaling on linear homogeneous problems scales everything that follows bitwise (Radau: within tolerance).",
            "Trusted: SimSolOut/SimIVP logs; tau_I for interpolant end points; ControlFlag::XOut (undocumented) is scheduled and must not alter the integration (bitwise twin against Continue), but when an on-demand interpolant is due is not asserted; a valid configuration refused with Err before the first callback is a violation; BDF identity judged by protocol clauses only.",
            "DESIGN.md §5 C19"),
}

NOT_APPLICABLE = {
    "C01": "tolerance-proportional accuracy is a pure numerical function of (problem, tolerances, method); there is no fault, schedule, clock or history in it for a simulator to own",
    "C02": "order of accuracy is an algebraic property of the tableau constants and stage code; nothing in it can be scheduled or faulted",
    "C07": "interpolant order inside a step is a pure algebraic/numerical property like C02",
    "C13": "symmetry/metamorphic relations between two independent pure calls; no environment behaviour is involved",
    "C14": "stiff stability and step-count efficiency are pure numerical behaviour of the implicit methods on given inputs",
    "C15": "interchangeability of mass/Jacobian storages and sources is a pure input->output equivalence",
    "C16": "LU factorisation / triangular solves are pure functions of their matrix arguments",
    "C17": "matrix storage semantics are pure functions of their arguments",
    "C20": "Python<->Rust layout/translation equivalence is a pure function of the call; no fault, cancellation or interleaving in the statement (GIL never released, callbacks synchronous)",
}

ALL = ["C%02d" % i for i in range(1, 21)]
# properties not yet wired into the simulator are listed as not applicable *yet* with that reason
PENDING_REASON = "claimed in DESIGN.md but its check is not built yet in this tree; not claimed until the check exists"

def main():
    checks = []
    for pid, (level, tech, text, note, ref) in sorted(CLAIMED.items()):
        checks.append({
            "property_id": pid,
            "quick_cmd": f"./check {pid} quick",
            "thorough_cmd": f"./check {pid} thorough",
            "evidence_file": f"/verif/evidence/{pid}.json",
            "replay_cmd_template": "./check --replay {path}",
            "engine": "ivpsim",
            "level_claimed": {"category": level, "text": text, "design_ref": ref},
            "level_note": note,
            "technique": tech,
        })
    na = []
    for pid in ALL:
        if pid in CLAIMED:
            continue
        na.append({"property_id": pid, "reason": NOT_APPLICABLE.get(pid, PENDING_REASON)})
    hooks_commits = []
    try:
        import subprocess
        out = subprocess.run(["git", "-C", "/repo", "log", "--format=%h %s"], capture_output=True, text=True).stdout
        hooks_commits = [l.split()[0] for l in out.splitlines() if "verif hook" in l]
    except Exception:
        pass
    m = {
        "version": 1,
        "setup_cmd": "cd /verif/sim && CARGO_NET_OFFLINE=true cargo build --release --offline",
        "hooks": {
            "guard": "verif",
            "enable": "cargo feature `verif` of the ivp crate (the simulator depends on ivp = { path = \"/repo\", features = [\"verif\"] })",
            "baseline_off_cmd": "cd /repo && cargo test --workspace --no-fail-fast --offline",
            "source_commits": hooks_commits,
            "add_only": True,
        },
        "engines": [{
            "name": "ivpsim",
            "path": "/verif/sim",
            "serves_properties": sorted(CLAIMED.keys()),
            "kind_free_text": "single-process deterministic simulator: owns every callback seam of the solver (RHS, Jacobian, events, SolOut, step budget), seeded PRNG decides every fault/cancellation/placement, tick watchdog for bounded liveness, minimiser + replay files",
        }],
        "checks": checks,
        "not_applicable": na,
        "notes": "Technique family: deterministic simulation with fault injection. known_findings.json lists open findings (none suppresses a different violation) and fixed: lines. See DESIGN.md.",
    }
    with open(os.path.join(HERE, "MANIFEST.json"), "w") as f:
        json.dump(m, f, indent=1)
        f.write("\n")

if __name__ == "__main__":
    main()
