#!/bin/sh
# Soundness sweep: run every claimed check for many VERIF_SEED values on the unchanged tree; any
# VIOLATION line is either a genuine defect or a false alarm and must be triaged.
# usage: tools/seed_sweep.sh <tier> <first_seed> <last_seed> [ids...]
here="$(cd "$(dirname "$0")/.." && pwd)"
bin="$here/sim/target/release/ivpsim"
tier="$1"; a="$2"; b="$3"; shift; shift; shift
ids="$*"; [ -n "$ids" ] || ids="C03 C04 C05 C06 C08 C09 C10 C11 C12 C18 C19"
out="${SWEEP_OUT:-/tmp/seed_sweep}"; mkdir -p "$out"
s="$a"; bad=0
while [ "$s" -le "$b" ]; do
  for id in $ids; do
    VERIF_ROOT="$out" VERIF_SEED="$s" "$bin" check "$id" "$tier" > "$out/$id-$s.log" 2>&1
    rc=$?
    if [ "$rc" != "0" ]; then bad=$((bad + 1)); echo "seed=$s $id rc=$rc"; grep '^VIOLATION' "$out/$id-$s.log" | cut -c1-600; fi
  done
  echo "seed=$s complete ($(echo $ids | wc -w) checks)"
  s=$((s + 1))
done
echo "sweep done: tier=$tier seeds=$a..$b nonzero_exits=$bad"
