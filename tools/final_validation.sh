#!/bin/sh
# End-of-round validation on the committed tree: determinism audit, multi-seed soundness sweeps,
# detection matrix over all seeded changes. Logs go to /verif/validation/.
here="$(cd "$(dirname "$0")/.." && pwd)"
mkdir -p "$here/validation"
cd "$here/sim" && cargo build --release --offline > /dev/null 2>&1 || { echo "build failed"; exit 2; }
cd "$here"
tools/audit_determinism.sh quick 3 > validation/audit_quick.log 2>&1
SWEEP_OUT=/tmp/sweep_q tools/seed_sweep.sh quick 2 25 > validation/sweep_quick_seeds_2_25.log 2>&1
tools/mutant_matrix.sh quick > validation/mutant_matrix_quick.log 2>&1
SWEEP_OUT=/tmp/sweep_t tools/seed_sweep.sh thorough 1 3 > validation/sweep_thorough_seeds_1_3.log 2>&1
echo done > validation/DONE
