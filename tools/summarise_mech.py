#!/usr/bin/env python3
"""Merge the result files of a mechanical-mutant campaign (tools/gen_mech_mutants.py +
tools/par_mutants.py --suite --first) with the hand triage of the survivors and write
  validation/mech/results.jsonl   one line per mutant: id, file:line, operator, removed/added line, verdict, first firing check
  validation/mech/SUMMARY.md      counts + the triaged survivor table
usage: summarise_mech.py <mutant dir> <results.jsonl> [<results.jsonl> ...]
"""
import json, os, sys

HERE = os.path.dirname(os.path.dirname(os.path.abspath(__file__)))
GEN_CMD = "tools/gen_mech_mutants.py --seed 1"


def main():
    # optional leading "--tag X": second (third, ...) campaign, files get the suffix X
    tag = ""
    if sys.argv[1] == "--tag":
        tag = sys.argv[2]
        del sys.argv[1:3]
    global GEN_CMD
    if tag:
        GEN_CMD = open(os.path.join(HERE, f"validation/mech/generator{tag}.txt")).read().strip()
    mdir = sys.argv[1]
    recs = {}
    for f in sys.argv[2:]:
        for l in open(f):
            r = json.loads(l)
            mid = os.path.basename(os.path.dirname(r["patch"]))
            # a later record (a re-run) replaces an earlier one
            recs[mid] = r
    triage = json.load(open(os.path.join(HERE, f"validation/mech/triage{tag}.json")))
    out = []
    for mid in sorted(recs):
        r = recs[mid]
        what = open(os.path.join(mdir, mid, "what.txt")).read().splitlines()
        head = what[0]
        loc, op = head.split(": ", 1)
        minus = next((l[2:].strip() for l in what[1:] if l.startswith("- ")), "")
        plus = next((l[2:].strip() for l in what[1:] if l.startswith("+ ")), "")
        out.append({"id": mid, "where": loc.rstrip(":"), "operator": op, "removed": minus, "added": plus,
                    "verdict": r["verdict"], "caught_by": r.get("caught_by", []), "errors": r.get("errors", []),
                    "first_violation": r.get("first_violation", "")[:300], "rerun": r.get("rerun", "")})
    os.makedirs(os.path.join(HERE, "validation/mech"), exist_ok=True)
    with open(os.path.join(HERE, f"validation/mech/results{tag}.jsonl"), "w") as f:
        for o in out:
            f.write(json.dumps(o) + "\n")
    n = len(out)
    cnt = {}
    for o in out:
        cnt[o["verdict"]] = cnt.get(o["verdict"], 0) + 1
    viable = [o for o in out if o["verdict"] in ("caught", "survived", "error")]
    surv = [o for o in out if o["verdict"] in ("survived", "error")]
    by_check = {}
    for o in out:
        if o["verdict"] == "caught":
            by_check[o["caught_by"][0]] = by_check.get(o["caught_by"][0], 0) + 1
    classes = {}
    for o in surv:
        c = triage.get(o["id"], ["untriaged", ""])[0]
        classes[c] = classes.get(c, 0) + 1
    L = []
    L.append(f"# Mechanical mutant campaign {tag or 1}\n")
    L.append(f"{n} operator-level mutants of the integration / output / event code (`{GEN_CMD}`), each run through "
             "`cargo build`, the repository's own test suite, and then the claimed checks' quick tier in the order C03 C04 C05 C06 C08 C09 C10 C11 C12 C18 C19 "
             "until the first one fires (`tools/par_mutants.py --suite --first`).\n")
    L.append("| outcome | count |")
    L.append("|---|---|")
    for k in ("stillborn", "killed_by_suite", "killed_by_suite_timeout", "caught", "survived", "error"):
        if k in cnt:
            L.append(f"| {k} | {cnt[k]} |")
    L.append("")
    L.append(f"Of the {len(viable)} mutants that compile and pass the existing tests, {cnt.get('caught', 0)} are reported as a VIOLATION by a claimed check "
             f"(first firing check: {', '.join(f'{k} {v}' for k, v in sorted(by_check.items()))}). "
             f"The remaining {len(surv)} were triaged by hand: " + ", ".join(f"{v} {k}" for k, v in sorted(classes.items())) + ".\n")
    L.append("Classes: *equivalent* - no observable difference (dead store, measure-zero comparison, unused code); *equivalent_under_spec* - observable, "
             "but inside what the property text explicitly allows; *out_of_scope* - observable, but only in something no claimed property constrains "
             "(accuracy and efficiency of the steppers = C01/C07, option validation, the Python binding, undocumented XOut timing, when ProbablyStiff is raised, "
             "whether a solvable problem is solved at all); *gap_closed* - a genuine gap of the checks, closed by a new oracle or generator family and re-run; "
             "*caught_on_rerun* - the first run ended without verdict (check killed), the re-run with the current machinery reports a VIOLATION.\n")
    rer = [o for o in out if o["rerun"]]
    if rer:
        L.append(f"{len(rer)} of the caught mutants ended their first run without a verdict (a check was OOM-killed, never returned, or was stopped by hand) - "
                 "each exposed a weakness of the harness on a tree that hangs or spins, which was repaired (DESIGN section 15), and was then re-run with the current machinery:\n")
        L.append("| mutant | where | change | fires on re-run | first run / repair |")
        L.append("|---|---|---|---|---|")
        for o in rer:
            ch = f"`{o['removed']}` -> `{o['added'] or '(deleted)'}`".replace("|", "\\|")
            L.append(f"| {o['id']} | {o['where']} | {ch} | {' '.join(o['caught_by'])} | {o['rerun']} |")
        L.append("")
        L.append("Survivors:\n")
    L.append("| mutant | where | change | class | reason |")
    L.append("|---|---|---|---|---|")
    for o in surv:
        c, why = triage.get(o["id"], ["untriaged", ""])
        ch = f"`{o['removed']}` -> `{o['added'] or '(deleted)'}`".replace("|", "\\|")
        L.append(f"| {o['id']} | {o['where']} | {ch} | {c} | {why.replace('|', chr(92) + '|')} |")
    L.append("")
    open(os.path.join(HERE, f"validation/mech/SUMMARY{tag}.md"), "w").write("\n".join(L) + "\n")
    print(f"{n} mutants: " + ", ".join(f"{k}={v}" for k, v in sorted(cnt.items())) + f"; survivors by class: {classes}")


if __name__ == "__main__":
    main()
