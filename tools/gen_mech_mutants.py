#!/usr/bin/env python3
"""Mechanical (operator-level) mutants of the integration / output / event code of /repo, as git
patches. Complements the hand-seeded changes under /verif/seeded: those are realistic but few and
chosen by somebody who read the property texts; these are blind and many. A surviving mechanical
mutant is triaged by hand (equivalent / outside every claimed property, e.g. accuracy or efficiency
only / a gap in the checks).

usage: gen_mech_mutants.py --out <dir> [--n 240] [--seed 1]
Writes <dir>/m<k>/patch.diff and <dir>/list.txt; deterministic in --seed.
"""
import argparse, os, random, re, subprocess

FILES = [
    "src/methods/rk4.rs", "src/methods/rk23.rs", "src/methods/dopri5.rs", "src/methods/dop853.rs",
    "src/methods/radau.rs", "src/methods/bdf.rs", "src/methods/mod.rs",
    "src/solve/solout.rs", "src/solve/event.rs", "src/solve/cont.rs", "src/solve/solution.rs",
    "src/solve/solve_ivp.rs", "src/dense.rs",
]
# weight the output/event/handler code (where most claimed properties live) above the steppers
WEIGHT = {"src/solve/solout.rs": 3.0, "src/solve/event.rs": 3.0, "src/solve/cont.rs": 2.0, "src/solve/solution.rs": 2.0,
          "src/solve/solve_ivp.rs": 2.0, "src/methods/mod.rs": 2.0}

SKIP = re.compile(r"verif::tick|#\[|^\s*(pub\s+)?const |assert|^\s*(pub(\(crate\))?\s+)?fn |^\s*use |^\s*///|^\s*//|^\s*$|^\s*\}|macro_rules")

COEFF = re.compile(r"\b[A-Z]{1,3}\d{1,4}\b|\b[a-z]{1,2}\d{1,2}\[|\bcoef|\bgamma|\balpha|\bkappa")
OPW = {"ROR": 1.5, "AOR": 0.4, "LCR": 1.5, "MISC": 1.0, "NEG": 1.5, "SDL": 1.0}

ROR = [(" <= ", " < "), (" < ", " <= "), (" >= ", " > "), (" > ", " >= "), (" == ", " != "), (" != ", " == ")]
AOR = [(" + ", " - "), (" - ", " + "), (" += ", " -= "), (" -= ", " += "), (" * ", " / ")]
LCR = [(" && ", " || "), (" || ", " && ")]
MISC = [(".min(", ".max("), (".max(", ".min("), (".abs()", ""), ("+= 1;", "+= 2;"), (" true", " false"), (" false", " true"),
        ("1e-12", "1e-9"), ("break;", ""), ("continue;", "")]


def code_part(line):
    i = line.find("//")
    return (line, "") if i < 0 else (line[:i], line[i:])


def candidates(lines):
    out = []
    in_tests = False
    for i, raw in enumerate(lines):
        if "#[cfg(test)]" in raw:
            in_tests = True
        if in_tests or SKIP.search(raw):
            continue
        code, com = code_part(raw)
        # relational / arithmetic / logical / misc operator replacement (every occurrence separately)
        for group, name in ((ROR, "ROR"), (AOR, "AOR"), (LCR, "LCR"), (MISC, "MISC")):
            for a, b in group:
                start = 0
                while True:
                    j = code.find(a, start)
                    if j < 0:
                        break
                    start = j + len(a)
                    if name == "AOR" and (re.search(r"[eE]$", code[:j].rstrip()) or COEFF.search(code)):
                        # (sums over tableau coefficients: accuracy only, C01/C07 territory)
                        continue
                    # generic brackets / arrows are never surrounded by blanks on both sides in this code base
                    new = code[:j] + b + code[j + len(a):]
                    out.append((i, new + com, f"{name} '{a.strip()}' -> '{b.strip()}'"))
        # condition negation
        m = re.match(r"^(\s*)(\} else )?if (?!let )(.+) \{\s*$", code)
        if m:
            out.append((i, f"{m.group(1)}{m.group(2) or ''}if !({m.group(3)}) {{\n", "NEG condition"))
        # statement deletion (assignments and simple calls only; never a `let`, never a return)
        if re.match(r"^\s*[A-Za-z_][A-Za-z0-9_\.\[\]]*(\s*[-+*/]?=\s*[^=].*|\.[a-z_]+\(.*\));\s*$", code) and "let " not in code:
            out.append((i, "", "SDL delete statement"))
    return out


def main():
    ap = argparse.ArgumentParser()
    ap.add_argument("--out", required=True)
    ap.add_argument("--n", type=int, default=240)
    ap.add_argument("--seed", type=int, default=1)
    ap.add_argument("--repo", default="/repo")
    ap.add_argument("--focus", action="store_true", help="prefer lines that handle the interval end, callbacks, status, counters and step bounds over numerics")
    ap.add_argument("--files", default="", help="comma-separated subset of the default file list")
    ap.add_argument("--exclude", default="", help="comma-separated file:first-last line ranges to leave alone")
    ap.add_argument("--not-in", default="", help="directory of an earlier campaign: mutants already drawn there are skipped")
    a = ap.parse_args()
    files = [f for f in FILES if not a.files or f in a.files.split(",")]
    excl = []
    for e in filter(None, a.exclude.split(",")):
        f, r = e.split(":")
        lo, hi = r.split("-")
        excl.append((f, int(lo), int(hi)))
    seen = set()
    if a.not_in:
        for d in sorted(os.listdir(a.not_in)):
            w = os.path.join(a.not_in, d, "what.txt")
            if os.path.exists(w):
                ls = open(w).read().splitlines()
                seen.add((ls[0].split(": ")[0].rsplit(":", 1)[0], ls[1][2:].strip(), (ls[2][2:].strip() if len(ls) > 2 else "")))
    rnd = random.Random(a.seed)
    pool = []
    for f in files:
        lines = open(os.path.join(a.repo, f)).read().splitlines(keepends=True)
        for (i, new, what) in candidates(lines):
            if any(f == ef and lo <= i + 1 <= hi for (ef, lo, hi) in excl):
                continue
            if (f, lines[i].strip(), new.strip() if new else "(deleted)") in seen:
                continue
            if new != lines[i]:
                pool.append((f, i, new, what))
    weights = [WEIGHT.get(f, 1.0) * OPW.get(what.split()[0], 1.0) for (f, _, _, what) in pool]
    if a.focus:
        FOCUS = re.compile(r"\blast\b|xend|x0\b|solout|ControlFlag|status|Status::|steps\.|evals\.|nmax|hmax|hmin|xout|dense|first_step|posneg|direction|t_eval|self\.t\b|self\.y\b|event|terminal|next_idx|tol\b|xold|interpol")
        cache = {}
        for k, (f, i, _, _) in enumerate(pool):
            if f not in cache:
                cache[f] = open(os.path.join(a.repo, f)).read().splitlines()
            weights[k] *= 4.0 if FOCUS.search(cache[f][i]) else 0.25
    # weighted sample without replacement
    chosen = []
    idx = list(range(len(pool)))
    while idx and len(chosen) < a.n:
        k = rnd.choices(range(len(idx)), weights=[weights[j] for j in idx])[0]
        chosen.append(pool[idx.pop(k)])
    os.makedirs(a.out, exist_ok=True)
    with open(os.path.join(a.out, "list.txt"), "w") as lst:
        for n, (f, i, new, what) in enumerate(chosen):
            lines = open(os.path.join(a.repo, f)).read().splitlines(keepends=True)
            mut = list(lines)
            if new == "":
                del mut[i]
            else:
                mut[i] = new if new.endswith("\n") else new + "\n"
            d = os.path.join(a.out, f"m{n:03d}")
            os.makedirs(d, exist_ok=True)
            # (GNU diff rather than difflib: it writes the "no newline at end of file" marker)
            tmp = os.path.join(d, "mutated.rs")
            open(tmp, "w").write("".join(mut))
            diff = subprocess.run(["diff", "-u", "--label", "a/" + f, "--label", "b/" + f, os.path.join(a.repo, f), tmp],
                                  capture_output=True, text=True).stdout
            os.remove(tmp)
            open(os.path.join(d, "patch.diff"), "w").write(diff)
            open(os.path.join(d, "what.txt"), "w").write(f"{f}:{i + 1}: {what}\n- {lines[i]}+ {new if new else '(deleted)'}\n")
            lst.write(os.path.join(d, "patch.diff") + "\n")
    print(f"pool {len(pool)} candidates, wrote {len(chosen)} mutants to {a.out}")


if __name__ == "__main__":
    main()
