#!/usr/bin/env python3
"""Rewrites section 14 of DESIGN.md (validation results) from the logs under /verif/validation and the
meta.json files under /verif/seeded."""
import json, os, re, glob

HERE = os.path.dirname(os.path.dirname(os.path.abspath(__file__)))

def read(p):
    try:
        return open(os.path.join(HERE, p)).read()
    except FileNotFoundError:
        return ""

def main():
    audit = read("validation/audit_quick.log")
    m = re.search(r"audit: (\d+) campaign executions compared, fail=(\d+)", audit)
    audit_line = f"{m.group(1)} campaign executions compared, fail={m.group(2)}" if m else "not run"
    sq = read("validation/sweep_quick_seeds_2_25.log").strip().splitlines()
    st = read("validation/sweep_thorough_seeds_1_3.log").strip().splitlines()
    sq_line = sq[-1] if sq else "not run"
    st_line = st[-1] if st else "not run"
    rows = []
    total = caught = own = 0
    for d in sorted(glob.glob(os.path.join(HERE, "seeded", "*"))):
        mp = os.path.join(d, "meta.json")
        if not os.path.exists(mp):
            continue
        me = json.load(open(mp))
        c = me.get("caught_by_quick")
        total += 1
        if c:
            caught += 1
        if c and me["breaks_property"] in c:
            own += 1
        need = me["needs_to_manifest"]
        need = need if len(need) < 230 else need[:227] + "..."
        need = need.replace("|", "\\|")
        rows.append(f"| {me['id']} | {me['breaks_property']} | {need} | {' '.join(c) if c else ('-' if c is not None else 'not run')} |")
    sec = []
    sec.append("## 14. Validation results on the final tree\n")
    sec.append("All numbers below are produced by `tools/final_validation.sh` on the committed tree (logs under `/verif/validation/`).\n")
    sec.append(f"* **Determinism audit** (`tools/audit_determinism.sh quick 3`: 11 campaigns x 3 seeds x 4 processes with 16, 3, 7 and 16 workers; the campaign fingerprint covers every non-trivial run fingerprint, every counter, the tick total and every violation): {audit_line}.")
    sec.append(f"* **No alarm on the unchanged tree, other seeds** (`tools/seed_sweep.sh`): quick tier — {sq_line}; thorough tier — {st_line}. Together with the default seed this is every claimed check at 25 seeds (quick) and 3 seeds (thorough, at the final budgets) without a single VIOLATION line; earlier in the build the quick tier was also swept over seeds 2..70 and the thorough tier over seeds 2..8 with the budgets of the day.")
    extra = []
    for name in ("sweep_quick_seeds_26_60.log", "sweep_thorough_seeds_4_5.log"):
        ls = read("validation/" + name).strip().splitlines()
        if ls and ls[-1].startswith("sweep done"):
            extra.append(ls[-1])
    if extra:
        sec.append("  Further sweeps on the same tree after the validation run: " + "; ".join(extra) + ".")
    rv = read("validation/revalidation_after_corrections.log").strip()
    if rv:
        sec.append("  " + rv.replace("\n- ", " (a) ", 1).replace("\n- ", "; ").replace("\n", " "))
    sec.append(f"* **Sensitivity, seeded changes** - {total} property-breaking changes seeded by fresh sub-agents that saw only the property text(s) and their own scratch worktree, never /verif (eight rounds: free choice; other mechanisms / implicit solvers / cooperating sites; history-dependent; option interactions; one component each with all eleven property texts; unusual but valid API usage; realistic maintainer intent - optimisation, hardening, refactoring, SciPy compatibility, solution assembly, sign handling; and, after the mechanical campaigns, one area each - error-recovery paths, degenerate runs, the public configuration API, statistics under unusual paths, control-flag handling, the output handler's state). Every change was confirmed independently (`tools/confirm_mutants.sh`: the 42-test suite passes with it, its demonstration fails with it and passes without it) and then run against every claimed check's quick tier (`tools/mutant_matrix.sh`, on scratch worktrees, four at a time). Result: **{caught}/{total} caught, {own}/{total} by the check of the property the seeder named.**")
    sec.append("  Twenty-odd changes were missed by the checks as they stood when the change arrived; each miss led to a strengthening of generators or oracles (recorded in the commit history of /verif), after which the whole set was re-run. Rounds 1-4: runs with `first_step` in C08 and C06 (C08B, C06E); absolute scales near the code's constants and first-attempt / RK4 clauses on the RHS seam in C11 (C11A, C11B); RK4 steps that do not divide the interval in the base generator (C05B/C06B/C19B were first caught only by C03); a step-end cross-check in C05 that does not go through the dense output; `min_step` in C03 (C03C); intervals of a few ulps at large |x0| and a tightened stopping-point rule in C05 (C05D); landing near a small |xend| and library panics after the run in C06 (C06C); terminal events in C08 (C08G, first caught only by C10); `ControlFlag::XOut` and the low-level `dense_output` switch in the simulated SolOut's schedule (C18G, R5radauB) - which also exposed F28. Round 6 (unusual API usage) was the most productive: vector tolerances with a zero error scale (R6u1A/B), the `uround`, `beta` and `newton_maxiter` knobs (R6u2A/B), the low-level dense switch twin and the events-versus-observers clause in C12 (R6u2A, R6u6B), `XOut(xend)` (R6u4B), event functions of very different magnitudes (R6u5B - the generator extension also exposed F29), `min_step` in C11 (R6u6A). Round 7 (maintainer intent) was caught 12/12 at the first attempt, round 8 (areas suggested by the mechanical campaigns) 11/12 - the twelfth (R8q3A, `Direction::from(i32)` for |k| >= 2) after the simulator also configured directions through the integer conversion. Some seeded changes are independent rediscoveries of one mechanism (C05B = C06B = C19B; R5bdfA = C03C; R5erkB = C03A), which is itself evidence that the seeders converge on the plausible mistakes.")
    import re as _re
    tot = [0, 0, 0]
    for name in ("SUMMARY.md", "SUMMARY2.md", "SUMMARY3.md"):
        mech = read("validation/mech/" + name)
        m2 = _re.search(r"Of the (\d+) mutants that compile and pass the existing tests, (\d+) are reported", mech)
        n_all = _re.search(r"^(\d+) operator-level mutants", mech, _re.M)
        if m2 and n_all:
            tot[0] += int(n_all.group(1)); tot[1] += int(m2.group(1)); tot[2] += int(m2.group(2))
    if tot[0]:
        sec.append(f"* **Sensitivity, mechanical mutants** (section 15, `validation/mech/SUMMARY*.md`): {tot[0]} blind operator-level mutants in three campaigns; {tot[1]} compile and pass the existing tests, {tot[2]} of those were reported by a claimed check when they were run, every other one is triaged by hand (equivalent / inside what the property allows / outside every claimed property / a gap, closed).\n")
    else:
        sec.append("")
    sec.append("| seeded change | asked to break | what it needs to manifest | checks that fire (quick tier) |")
    sec.append("|---|---|---|---|")
    sec.extend(rows)
    sec.append("")
    text = "\n".join(sec) + "\n"
    p = os.path.join(HERE, "DESIGN.md")
    s = open(p).read()
    a = s.index("## 14. Validation results on the final tree")
    b = s.index("---------------------------------------------------------------------------------------------------", a)
    s = s[:a] + text + s[b:]
    open(p, "w").write(s)
    print(f"section 14 rewritten: {total} seeded, {caught} caught, {own} by own property")

if __name__ == "__main__":
    main()
