#!/bin/sh
# Run every seeded change under /verif/seeded against every claimed check (quick tier) and record
# which checks fire in each meta.json. Uses tools/par_mutants.py: four changes at a time, each on
# its own scratch worktree of /repo HEAD (the campaigns' results do not depend on the worker count,
# so this decides exactly what `./check <ID> quick` on the patched /repo decides).
# usage: tools/mutant_matrix.sh [tier]
here="$(cd "$(dirname "$0")/.." && pwd)"
tier="${1:-quick}"
work=/tmp/mutant_matrix; rm -rf "$work"; mkdir -p "$work"
ls -d "$here"/seeded/*/ | sed 's|/$|/patch.diff|' > "$work/list.txt"
python3 "$here/tools/par_mutants.py" --list "$work/list.txt" --out "$work/results.jsonl" --jobs 4 --workers 4 --tier "$tier" --scratch /tmp/mm_matrix > "$work/run.log" 2>&1
python3 - "$work/results.jsonl" "$tier" <<'PY'
import json, os, sys
res, tier = sys.argv[1], sys.argv[2]
rows = sorted((json.loads(l) for l in open(res)), key=lambda r: r["patch"])
for r in rows:
    d = os.path.dirname(r["patch"])
    mp = os.path.join(d, "meta.json")
    m = json.load(open(mp))
    if r["verdict"] in ("caught", "survived"):
        m["caught_by_" + tier] = r["caught_by"]
    else:
        m["caught_by_" + tier] = None
    json.dump(m, open(mp, "w"), indent=1)
    print(f"{os.path.basename(d)}: {r['verdict']} {' '.join(r['caught_by'])} {' '.join(r['errors'])}")
n = len(rows); c = sum(1 for r in rows if r["verdict"] == "caught")
print(f"matrix: {n} seeded changes, {c} caught, {n - c} not caught or not run")
PY
rm -rf "$work"
