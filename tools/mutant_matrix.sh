#!/bin/sh
# Run every seeded change under /verif/seeded against every claimed check (quick tier) and record
# which checks fire in each meta.json. usage: tools/mutant_matrix.sh [tier]
here="$(cd "$(dirname "$0")/.." && pwd)"
tier="${1:-quick}"
for d in "$here"/seeded/*/; do
  id=$(basename "$d")
  res=$("$here/tools/try_mutant.sh" "$d/patch.diff" "$tier" 2>&1 | grep '^CAUGHT_BY' | sed 's/CAUGHT_BY: *//')
  echo "$id: $res"
  python3 - "$d/meta.json" "$res" "$tier" <<'PY'
import json,sys
p,res,tier=sys.argv[1],sys.argv[2],sys.argv[3]
m=json.load(open(p)); m["caught_by_"+tier]=[] if res.strip()=="none" else res.split(); json.dump(m,open(p,"w"),indent=1)
PY
done
