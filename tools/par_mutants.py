#!/usr/bin/env python3
"""Run a list of source changes (git patches against /repo HEAD) through the claimed checks, several
at a time. Nothing here touches /repo's working tree: every job slot owns a scratch git worktree of
/repo HEAD under <scratch>/w<k> and a shadow copy of the simulator manifest under <scratch>/sim<k>
whose `ivp` path dependency points at that worktree (the simulator sources are the ones in
/verif/sim/src, through a symlink). A campaign's result does not depend on its worker count, so a
check run here with 4 workers decides exactly what `./check <ID> quick` decides.

usage: par_mutants.py --list <file with one patch path per line> --out <results.jsonl>
                      [--jobs 4] [--workers 4] [--tier quick] [--suite] [--first] [--scratch /tmp/mm]
                      [--ids "C03 C04 ..."]
  --suite  first run the repository's own test suite on the change (cargo test --workspace); a change
           that does not compile is recorded as 'stillborn', one the suite rejects as 'killed_by_suite',
           and neither is run through the checks
  --first  stop at the first check that fires (enough to decide caught / not caught)
The scratch directory is removed at the end (worktrees are unregistered with git worktree remove).
"""
import argparse, json, os, queue, shutil, signal, subprocess, sys, threading, time

HERE = os.path.dirname(os.path.dirname(os.path.abspath(__file__)))
ALL = "C03 C04 C05 C06 C08 C09 C10 C11 C12 C18 C19"
ENV = dict(os.environ, CARGO_NET_OFFLINE="true")


def sh(cmd, cwd=None, timeout=None, env=None, out=None):
    # own process group, so that a timeout also ends the grandchildren (test binaries of a hung mutant)
    p = subprocess.Popen(cmd, cwd=cwd, env=env or ENV, stdout=out or subprocess.DEVNULL, stderr=subprocess.STDOUT,
                         shell=isinstance(cmd, str), start_new_session=True)
    try:
        return p.wait(timeout=timeout)
    except subprocess.TimeoutExpired:
        try:
            os.killpg(p.pid, signal.SIGKILL)
        except ProcessLookupError:
            pass
        p.wait()
        return 124


def setup_slot(scratch, k):
    wt = f"{scratch}/w{k}"
    sim = f"{scratch}/sim{k}"
    if not os.path.isdir(wt):
        if sh(["git", "-C", "/repo", "worktree", "add", "-q", "--detach", wt, "HEAD"]) != 0:
            sys.exit("cannot create worktree " + wt)
    os.makedirs(sim, exist_ok=True)
    man = open(f"{HERE}/sim/Cargo.toml").read().replace('path = "/repo"', f'path = "{wt}"').replace('path="/repo"', f'path="{wt}"')
    assert wt in man, "simulator manifest has no path dependency on /repo"
    open(f"{sim}/Cargo.toml", "w").write(man)
    shutil.copy(f"{HERE}/sim/Cargo.lock", f"{sim}/Cargo.lock")
    if not os.path.islink(f"{sim}/src"):
        os.symlink(f"{HERE}/sim/src", f"{sim}/src")
    if os.path.isdir(f"{HERE}/sim/.cargo") and not os.path.exists(f"{sim}/.cargo"):
        shutil.copytree(f"{HERE}/sim/.cargo", f"{sim}/.cargo")
    return wt, sim


def run_one(patch, wt, sim, outdir, a):
    rec = {"patch": patch, "caught_by": [], "errors": []}
    sh(["git", "checkout", "-q", "--", "."], cwd=wt)
    if sh(["git", "apply", patch], cwd=wt) != 0:
        rec["verdict"] = "patch_does_not_apply"
        return rec
    t0 = time.time()
    try:
        if a.suite:
            if sh(["cargo", "build", "--offline", "--features", "verif"], cwd=wt, timeout=900) != 0:
                rec["verdict"] = "stillborn"
                return rec
            rc = sh(["cargo", "test", "--workspace", "--offline"], cwd=wt, timeout=900)
            if rc != 0:
                rec["verdict"] = "killed_by_suite" if rc != 124 else "killed_by_suite_timeout"
                return rec
        if sh(["cargo", "build", "--release", "--offline"], cwd=sim, timeout=1800) != 0:
            rec["verdict"] = "stillborn"
            return rec
        shutil.rmtree(outdir, ignore_errors=True)
        os.makedirs(outdir)
        env = dict(ENV, VERIF_ROOT=outdir)
        for pid in a.ids.split():
            with open(f"{outdir}/{pid}.log", "w") as f:
                rc = sh([f"{sim}/target/release/ivpsim", "check", pid, a.tier, "--workers", str(a.workers)], env=env,
                        timeout=1200, out=f)
            if rc == 1:
                rec["caught_by"].append(pid)
                if "first_violation" not in rec:
                    for line in open(f"{outdir}/{pid}.log"):
                        if line.startswith("VIOLATION"):
                            rec["first_violation"] = line.strip()[:500]
                            break
                if a.first:
                    break
            elif rc != 0:
                rec["errors"].append(f"{pid}:rc={rc}")
        rec["verdict"] = "caught" if rec["caught_by"] else ("error" if rec["errors"] else "survived")
        return rec
    finally:
        rec["wall_s"] = round(time.time() - t0, 1)
        sh(["git", "checkout", "-q", "--", "."], cwd=wt)


def main():
    ap = argparse.ArgumentParser()
    ap.add_argument("--list", required=True)
    ap.add_argument("--out", required=True)
    ap.add_argument("--jobs", type=int, default=4)
    ap.add_argument("--workers", type=int, default=4)
    ap.add_argument("--tier", default="quick")
    ap.add_argument("--suite", action="store_true")
    ap.add_argument("--first", action="store_true")
    ap.add_argument("--scratch", default="/tmp/mm")
    ap.add_argument("--ids", default=ALL)
    ap.add_argument("--keep", action="store_true")
    a = ap.parse_args()
    patches = [l.strip() for l in open(a.list) if l.strip()]
    done = set()
    if os.path.exists(a.out):
        for l in open(a.out):
            done.add(json.loads(l)["patch"])
    q = queue.Queue()
    for p in patches:
        if p not in done:
            q.put(p)
    lock = threading.Lock()
    os.makedirs(a.scratch, exist_ok=True)

    def worker(k):
        wt, sim = setup_slot(a.scratch, k)
        while True:
            try:
                p = q.get_nowait()
            except queue.Empty:
                return
            rec = run_one(p, wt, sim, f"{a.scratch}/out{k}", a)
            with lock:
                with open(a.out, "a") as f:
                    f.write(json.dumps(rec) + "\n")
                print(f"{os.path.basename(os.path.dirname(p))}/{os.path.basename(p)}: {rec['verdict']} {' '.join(rec['caught_by'])} {' '.join(rec['errors'])}", flush=True)

    ts = [threading.Thread(target=worker, args=(k,)) for k in range(a.jobs)]
    for t in ts:
        t.start()
    for t in ts:
        t.join()
    if not a.keep:
        for k in range(a.jobs):
            sh(["git", "-C", "/repo", "worktree", "remove", "--force", f"{a.scratch}/w{k}"])
        shutil.rmtree(a.scratch, ignore_errors=True)
        sh(["git", "-C", "/repo", "worktree", "prune"])


if __name__ == "__main__":
    main()
