#!/bin/sh
# Determinism audit: every claimed check is run for several VERIF_SEED values, each seed in several
# separate processes with different worker counts; the campaign fingerprints (hash over every
# non-trivial run fingerprint, every counter, every violation) must be identical.
# usage: tools/audit_determinism.sh [tier] [nseeds]
here="$(cd "$(dirname "$0")/.." && pwd)"
bin="$here/sim/target/release/ivpsim"
tier="${1:-quick}"
nseeds="${2:-6}"
[ -x "$bin" ] || { echo "build first: cd $here/sim && cargo build --release --offline"; exit 2; }
fail=0
total=0
for id in C03 C04 C05 C06 C08 C09 C10 C11 C12 C18 C19; do
  s=1
  while [ "$s" -le "$nseeds" ]; do
    ref=""
    for w in 16 3 7 16; do
      out=$(VERIF_SEED=$((s * 7919)) "$bin" fingerprints "$id" "$tier" --workers "$w" | grep '^fingerprint')
      total=$((total + 1))
      if [ -z "$ref" ]; then ref="$out"; elif [ "$out" != "$ref" ]; then
        echo "NONDETERMINISM property=$id seed=$((s * 7919)) workers=$w"; echo "  ref: $ref"; echo "  got: $out"; fail=1
      fi
    done
    echo "$ref"
    s=$((s + 1))
  done
done
echo "audit: $total campaign executions compared, fail=$fail"
exit $fail
