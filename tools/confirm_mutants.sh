#!/bin/sh
# Independent confirmation of seeded changes: for each <dir>/<X>.patch.diff + <X>_demo.rs
#  (1) the patch applies to a clean worktree of /repo HEAD, (2) the existing suite passes with it,
#  (3) the demonstration fails with it, (4) the demonstration passes without it.
# usage: tools/confirm_mutants.sh <outdir> <id> [<id>...]    (results appended to <outdir>/confirm.log)
outdir="$1"; shift
wt=/tmp/confirm_wt
if [ ! -d "$wt" ]; then git -C /repo worktree add -q --detach "$wt" HEAD || exit 2; fi
cd "$wt" && git checkout -q --detach "$(git -C /repo rev-parse HEAD)" && git checkout -- . && git clean -fdq tests
for id in "$@"; do
  for X in A B; do
    p="$outdir/$id/$X.patch.diff"; d="$outdir/$id/${X}_demo.rs"
    [ -f "$p" ] && [ -f "$d" ] || { echo "$id$X: missing files" >> "$outdir/confirm.log"; continue; }
    name="demo_${id}_${X}"
    git checkout -- . ; git clean -fdq tests
    # (4) demo passes on the clean tree
    cp "$d" "tests/$name.rs"
    cargo test --offline --test "$name" > "/tmp/confirm_$name.clean.log" 2>&1; clean_rc=$?
    rm -f "tests/$name.rs"
    # (1) apply
    if ! git apply "$p"; then echo "$id$X: PATCH DOES NOT APPLY" >> "$outdir/confirm.log"; continue; fi
    # (2) suite passes
    cargo test --workspace --no-fail-fast --offline > "/tmp/confirm_$name.suite.log" 2>&1; suite_rc=$?
    # (3) demo fails
    cp "$d" "tests/$name.rs"
    timeout 600 cargo test --offline --test "$name" > "/tmp/confirm_$name.mut.log" 2>&1; mut_rc=$?
    rm -f "tests/$name.rs"
    git checkout -- .
    verdict="REJECTED"
    if [ "$clean_rc" = "0" ] && [ "$suite_rc" = "0" ] && [ "$mut_rc" != "0" ]; then verdict="CONFIRMED"; fi
    echo "$id$X: $verdict (demo on clean tree rc=$clean_rc, existing suite with change rc=$suite_rc, demo with change rc=$mut_rc)" >> "$outdir/confirm.log"
  done
done
